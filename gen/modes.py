#!/usr/bin/env python3
"""Operation generator for engine `modes` (C12).  All randomness from --seed.

Histories are structured: a terminal (directly, adopted by a toplevel instance, or built by one; with or
without an output buffer of a few or many bytes), the terminal's replies to the start-up queries (prompt,
late - after the program has already set controls - or absent; consistent with the VT's initial state
named on the `new` line), then control settings (valid, redundant, repeated, a labelled minority invalid),
pens (palette colours with and without RGB8 refinements, often a small variation of the previous pen),
text, pause/resume cycles (one in three with control settings, pen changes and text between pause and resume, or
between pause and an ending without resume), other holders taking and dropping references to the terminal, and an ending in
teardown and/or destruction.  Histories that contain a trigger of a finding already recorded for the
unrepaired tree are placed after the others, so that the framework's cap on examined failing histories never
hides a new failure behind known ones.
"""
import argparse, random, json, itertools, collections

ap = argparse.ArgumentParser()
ap.add_argument("--seed", type=int, default=1); ap.add_argument("--tier", default="quick")
ap.add_argument("--out", required=True); ap.add_argument("--prop", default="C12")
a = ap.parse_args()
rng = random.Random(a.seed)
stat = collections.Counter()

BOOLCTL = ["altscreen", "cursorvis", "cursorblink", "keypad_app"]
NUM = {"altscreen": 1, "cursorvis": 2, "mouse": 3, "cursorblink": 4, "cursorshape": 5, "keypad_app": 9}
ATTR_VALUES = {
    "fg": [-1, 0, 1, 3, 7, 8, 9, 15, 16, 100, 200, 255], "bg": [-1, 0, 2, 7, 8, 15, 16, 231, 255],
    "b": [0, 1], "u": [0, 1, 1, 0, 1, 1, 0, 1, 2, 3], "i": [0, 1], "rv": [0, 1], "s": [0, 1],
    "af": [-1, 0, 1, 5, 9, 10], "bl": [0, 1], "sp": [0, 2, 3, 0, 2, 3, 0, 2, 3, 1],
}
ATTRS = list(ATTR_VALUES)
RGBS = ["112233", "000000", "ffffff", "ff8000", "112234"]
COLOUR_IDX = [-1, 1, 5, 9, 16, 200, 255]
TEXTS = ["6869", "78", "c3a9", "48656c6c6f20776f726c64", "20", "efbc91"]


def hexs(s):
    return s.encode().hex()


def colour(n):
    """A palette index, in 2 of 5 cases with an RGB8 refinement."""
    if rng.random() < 0.4:
        stat["pen:rgb8-colour"] += 1
        return f"{rng.choice(COLOUR_IDX)}#{rng.choice(RGBS)}"
    return str(rng.choice(ATTR_VALUES[n]))


def value(n):
    return colour(n) if n in ("fg", "bg") else str(rng.choice(ATTR_VALUES[n]))


def pen(prev=None):
    """A pen; with a previous pen at hand, often a variation of it in one attribute (a colour keeps its index and
    loses, gains or changes its RGB8 refinement, or keeps the refinement and changes the index)."""
    if prev and prev != "-" and rng.random() < 0.45:
        fields = dict(f.split("=") for f in prev.split(","))
        n = rng.choice(sorted(fields, key=ATTRS.index))
        if n in ("fg", "bg"):
            idx, _, rgb = fields[n].partition("#")
            how = rng.random()
            if rgb and how < 0.5:
                fields[n] = idx                                   # same index, refinement dropped
            elif how < 0.8:
                fields[n] = f"{idx}#{rng.choice(RGBS)}"           # same index, refinement added / changed
            else:
                fields[n] = f"{rng.choice(COLOUR_IDX)}" + (f"#{rgb}" if rgb else "")
            stat["pen:colour-variation"] += 1
        else:
            fields[n] = value(n)
        if rng.random() < 0.5:                                    # only the varied attribute (for chpen), or the whole pen
            return f"{n}={fields[n]}"
        return ",".join(f"{k}={fields[k]}" for k in sorted(fields, key=ATTRS.index))
    k = rng.choice([0, 1, 1, 2, 2, 3, 5, 10])
    names = sorted(rng.sample(ATTRS, k), key=ATTRS.index)
    if not names:
        return "-"
    return ",".join(f"{n}={value(n)}" for n in names)


class Hist:
    def __init__(self, kind, buf):
        self.shape = rng.choice([0, 1, 2, 2, 3, 4, 5, 6])
        self.blink = 1 if (self.shape == 0 or self.shape % 2 == 1) else 0
        # the terminal's mode state at hand-over is a parameter of the history: one terminal in five is handed over
        # with its cursor hidden (it says so in its reply to the start-up query for mode 25)
        self.vis = 0 if rng.random() < 0.2 else 1
        self.lines = [f"new {kind}{f' buf={buf}' if buf else ''} blink={self.blink} shape={self.shape}{'' if self.vis else ' vis=0'}"]
        if not self.vis:
            stat["handover:cursor-hidden"] += 1
        self.kind = kind
        self.last = {}          # control -> last value set
        self.trigger = set()
        self.pending = self.replies()
        self.prevpen = None
        self.extra = 0          # references taken by other holders
        self.owner = True
        # the program sets the modes itself, never through setup (nearly always so when the cursor was handed over hidden:
        # setup hides the cursor, and the driver has no record of the hand-over state to go back to)
        self.nosetup = kind != "term" and rng.random() < (0.3 if self.vis else 0.9)
        if self.nosetup:
            stat["toplevel:without-setup"] += 1

    def replies(self):
        r = [f"reply mode 25 {1 if self.vis else 2}", f"reply mode 12 {1 if self.blink else 2}", f"reply mode 69 {rng.choice([1, 1, 2, 0])}",
             f"reply shape {self.shape}", f"reply sgr {rng.choice([0, 1])} {rng.choice([0, 1])}"]
        rng.shuffle(r)
        return r

    def add(self, line):
        self.lines.append(line)
        stat["op:" + line.split()[0]] += 1

    def deliver(self, n=None):
        n = len(self.pending) if n is None else min(n, len(self.pending))
        for _ in range(n):
            line = self.pending.pop(0)
            p = line.split()
            what = {"25": "cursorvis", "12": "cursorblink"}.get(p[2]) if p[1] == "mode" else ("cursorshape" if p[1] == "shape" else None)
            if what in self.last:
                stat["reply:after-the-control-was-set"] += 1
            if p[1] == "sgr" and p[3] == "1" and self.last.get("xterm.cap_rgb8") == 0:
                self.trigger.add("forced_rgb8")
            self.add(line)

    def early(self):
        """Controls set straight after construction, before the terminal has answered the start-up queries."""
        for _ in range(rng.randint(1, 4)):
            c = rng.choice(["cursorshape", "cursorshape", "cursorblink", "cursorvis", "mouse", "altscreen"])
            c = self.leave_hidden(c)
            v = rng.choice([1, 2, 3]) if c in ("cursorshape", "mouse") else rng.choice([0, 1])
            self.last[c] = v
            self.add(f"ctl {c} {v}")
            stat["ctl:before-replies"] += 1

    def leave_hidden(self, c):
        """On a terminal handed over with a hidden cursor the program nearly always leaves cursor visibility alone
        (the rest is labelled: outside the contract)."""
        if c == "cursorvis" and not self.vis:
            if rng.random() < 0.9:
                return "altscreen"
            stat["contract:cursorvis-set-on-hidden-handover"] += 1
        return c

    def ctl(self):
        r = rng.random()
        if r < 0.04:   # a number that is no integer control of the driver
            self.add(f"ctl #{rng.choice([0, 6, 7, 8, 10, 11, 99, 8193, 8194, 8195, 8197, -1])} {rng.choice([0, 1, 2])}")
            stat["ctl:not-a-control"] += 1
            return
        if r < 0.07:
            v = rng.choice([0, 1, 5])
            self.last["xterm.cap_rgb8"] = v
            self.add(f"ctl xterm.cap_rgb8 {v}")
            return
        c = rng.choice(["altscreen", "cursorvis", "mouse", "mouse", "cursorblink", "cursorshape", "keypad_app"])
        c = self.leave_hidden(c)
        if c in self.last and rng.random() < 0.25:
            v = self.last[c]; stat["ctl:redundant"] += 1
        elif rng.random() < 0.06:
            v = rng.choice([4, 5, 7, -1, 8] if c in ("mouse", "cursorshape") else [2, -1, 100, 256]); stat["ctl:invalid-value"] += 1
        elif c == "mouse":
            v = rng.choice([0, 1, 2, 3])
        elif c == "cursorshape":
            v = rng.choice([1, 2, 3, 0])
        else:
            v = rng.choice([0, 1])
        name = c if rng.random() < 0.8 else f"#{NUM[c]}"
        self.last[c] = v
        if c == "keypad_app" and v != 0:
            self.trigger.add("keypad_shadow")
        self.add(f"ctl {name} {v}")

    def body_op(self):
        r = rng.random()
        if r < 0.45:
            self.ctl()
        elif r < 0.60:
            p = pen(self.prevpen)
            self.prevpen = p
            self.add(f"{rng.choice(['setpen', 'setpen', 'chpen'])} {p}")
            if any(f in ("u=2", "u=3", "sp=1") for f in p.split(",")):
                stat["contract:pen-value-without-exact-encoding"] += 1
        elif r < 0.70:
            self.add(f"print {rng.choice(TEXTS)}")
        elif r < 0.80:
            self.add("pause")
            x = rng.random()
            if x < 0.35:     # the program goes on using the terminal between pause and resume
                for _ in range(rng.choice([1, 1, 2, 3])):
                    self.paused_op()
                stat["paused:ops-before-resume-or-end"] += 1
            if rng.random() < (0.75 if x < 0.35 else 0.93):
                self.add("resume")
            else:
                self.ended_paused = True
                if x < 0.35:
                    stat["paused:ops-then-end-without-resume"] += 1
        elif r < 0.84:
            self.add(f"setstr {rng.choice(['title_text', 'icon_text', 'icontitle_text', 'title_text', 'mouse', '#7'])} {hexs(rng.choice(['title here', 'x', 'a;b c']))}")
        elif r < 0.87:
            self.add(f"await {rng.choice([0, 1, 50])}")
        elif r < 0.90:
            self.add(rng.choice(["clear", "flush"]))
        elif r < 0.93:
            if self.pending:
                self.deliver(rng.randint(1, 2))
            else:
                self.ctl()
        elif r < 0.94:
            self.add("resume"); stat["contract:resume-without-pause"] += 1
        elif r < 0.96:
            if self.extra and rng.random() < 0.3:
                self.add("termunref"); self.extra -= 1
            else:
                self.add("termref"); self.extra += 1
        elif self.kind != "term" and r < 0.99:
            self.tick()
        else:
            self.ctl()

    def paused_op(self):
        """A control setting, a pen change, text, a title or a reply of the terminal while the terminal is paused."""
        r = rng.random()
        if r < 0.5:
            self.ctl()
        elif r < 0.7:
            p = pen(self.prevpen)
            self.prevpen = p
            self.add(f"{rng.choice(['setpen', 'setpen', 'chpen'])} {p}")
            if rng.random() < 0.7:
                self.add(f"print {rng.choice(TEXTS)}")
        elif r < 0.8:
            self.add(f"print {rng.choice(TEXTS)}")
        elif r < 0.87:
            self.add(f"setstr title_text {hexs('paused')}")
        elif r < 0.93 and self.pending:
            self.deliver(1)      # a reply while libtermkey is stopped waits in its buffer
        elif r < 0.96:
            self.add("flush")
        else:
            self.ctl()

    def tick(self):
        nosetup = self.nosetup or rng.random() < 0.15
        if not nosetup and not self.vis:
            stat["contract:setup-on-hidden-handover"] += 1
        if not nosetup and not getattr(self, "done_setup", False):
            self.done_setup = True
            self.trigger.add("keypad_shadow")
            self.last.update(cursorvis=0, mouse=2, keypad_app=1)
        self.add("tick nosetup" if nosetup else "tick")

    def finish(self):
        r = rng.random()
        if getattr(self, "ended_paused", False):
            end = rng.choice([["unref"], ["teardown", "unref"]]); stat["end:while-paused"] += 1
        elif r < 0.5:
            end = ["unref"]
        elif r < 0.8:
            end = ["teardown", "unref"]
        elif r < 0.9:
            end = ["pause", "unref"]
        elif r < 0.95:
            end = ["teardown"]
            if rng.random() < 0.5:   # out of contract: a setting or a reply after teardown
                end += [rng.choice([f"ctl mouse {rng.choice([1, 2])}", "reply mode 12 1", "reply mode 25 1"]), "unref"]; stat["contract:op-after-teardown"] += 1
        else:
            end = ["pause", "teardown", "unref"]
        if self.extra and "unref" in end:
            stat["end:owner-destroyed-while-the-terminal-is-shared"] += 1
            k = end.index("unref")
            if rng.random() < 0.2:     # the other holders let go first
                end = end[:k] + ["termunref"] * self.extra + end[k:]
            else:
                end = end[:k + 1] + ["termunref"] * self.extra + end[k + 1:]
        for e in end:
            self.add(e)
        stat["end:" + "+".join(x.split()[0] for x in end)] += 1


def history():
    kind = rng.choice(["term"] * 6 + ["tickit"] * 2 + ["tickitb"] * 2)
    buf = rng.choice([0, 0, 0, 8, 16, 64, 4096]) if kind != "tickitb" else rng.choice([0, 0, 16, 64])
    h = Hist(kind, buf)
    stat["kind:" + kind] += 1
    if buf or kind == "tickitb":
        stat["output:buffered"] += 1
    if rng.random() < 0.2:
        v = rng.choice([1, 1, 1, 0])
        h.last["xterm.cap_rgb8"] = v
        h.add(f"ctl xterm.cap_rgb8 {v}"); stat["rgb8:forced-at-start"] += 1
    mode = rng.random()
    if mode < 0.55:
        h.deliver(); stat["replies:prompt"] += 1
    elif mode < 0.67:
        h.pending = []; stat["replies:none"] += 1
    else:
        stat["replies:late"] += 1
        if rng.random() < 0.7:
            h.early()
            if rng.random() < 0.6:
                h.deliver()
    if kind != "term":
        if rng.random() < 0.4:
            h.add(f"usealt {rng.choice([0, 0, 1, 2, 3])}")
        if rng.random() < 0.85:
            h.tick()
    for _ in range(rng.randint(2, 22)):
        if getattr(h, "ended_paused", False):
            break
        h.body_op()
    h.finish()
    return h


def exhaustive():
    """Every history of at most `depth` operations over small alphabets, each ending in destruction."""
    alpha = ["ctl altscreen 1", "ctl altscreen 0", "ctl cursorvis 0", "ctl cursorvis 1", "ctl mouse 2", "ctl mouse 0",
             "setpen b=1", "pause", "resume", "teardown", "reply mode 25 1", "ctl keypad_app 1"]
    depth = 4
    clean, dirty = [], []
    for n in range(depth + 1):
        for seq in itertools.product(alpha, repeat=n):
            (dirty if "ctl keypad_app 1" in seq else clean).append(["new term blink=0 shape=2"] + list(seq) + ["unref"])
    families = {"mode controls, pen, pause/resume/teardown, a reply (<= 4 of 12)": len(clean) + len(dirty)}
    # colours with RGB8 refinements across pause/resume, on a terminal that has (or is told to have) 24-bit colours
    rgb = ["ctl xterm.cap_rgb8 1", "setpen fg=5#112233", "setpen fg=5", "chpen fg=5#445566", "chpen bg=9#ff8000", "pause", "resume", "setpen -"]
    for n in range(1, 5):
        for seq in itertools.product(rgb, repeat=n):
            clean.append(["new term blink=0 shape=2", "reply sgr 1 0"] + list(seq) + ["print 78", "unref"])
    families["RGB8 colours, pause/resume (<= 4 of 8)"] = sum(len(rgb) ** n for n in range(1, 5))
    # controls set before the terminal's replies arrive
    early = ["ctl cursorshape 2", "ctl cursorshape 1", "ctl cursorblink 1", "ctl cursorblink 0", "ctl cursorvis 0", "reply shape 4", "reply shape 1",
             "reply mode 12 1", "reply mode 12 2", "reply mode 25 1"]
    for n in range(1, 5):
        for seq in itertools.product(early, repeat=n):
            clean.append(["new term blink=1 shape=1"] + list(seq) + ["unref"])
    families["cursor controls and late replies (<= 4 of 10)"] = sum(len(early) ** n for n in range(1, 5))
    # a terminal handed over with its cursor hidden: it answers the start-up query accordingly, at any time
    hidden = ["reply mode 25 2", "ctl altscreen 1", "ctl mouse 1", "ctl cursorblink 1", "setpen b=1", "pause", "resume", "teardown", "await 1", "reply mode 12 2"]
    for n in range(1, 5):
        for seq in itertools.product(hidden, repeat=n):
            clean.append(["new term blink=0 shape=2 vis=0"] + list(seq) + ["unref"])
    families["cursor hidden at hand-over (<= 4 of 10)"] = sum(len(hidden) ** n for n in range(1, 5))
    # a small output buffer
    buf = ["ctl altscreen 1", "ctl mouse 2", "ctl cursorvis 0", "setpen b=1,fg=200", "print 48656c6c6f", "pause", "resume", "teardown", "flush"]
    for size in (8, 64):
        for n in range(1, 5):
            for seq in itertools.product(buf, repeat=n):
                clean.append([f"new term buf={size} blink=0 shape=2"] + list(seq) + ["unref"])
    families["output buffer of 8 / 64 bytes (<= 4 of 9)"] = 2 * sum(len(buf) ** n for n in range(1, 5))
    # a terminal shared with another holder; `unref` may come anywhere
    shared = ["tick nosetup", "ctl altscreen 1", "ctl mouse 1", "setpen rv=1", "termref", "termunref", "unref", "pause", "resume"]
    for kind in ("term", "tickit", "tickitb"):
        for n in range(1, 5):
            for seq in itertools.product(shared, repeat=n):
                if kind == "term" and "tick nosetup" in seq:
                    continue
                clean.append([f"new {kind} blink=1 shape=1"] + list(seq) + ["unref", "termunref", "termunref"])
    families["shared terminal, three kinds (<= 4 of 9)"] = 3 * sum(len(shared) ** n for n in range(1, 5))
    for kind in ("tickit", "tickitb"):
        for seq in itertools.product(["tick", "usealt 0", "pause", "resume", "ctl mouse 0", "ctl altscreen 0", "teardown", "termref"], repeat=3):
            dirty.append([f"new {kind} blink=1 shape=1"] + list(seq) + ["unref", "termunref"])
    families["toplevel setup (3 of 8, two kinds)"] = 2 * 8 ** 3
    return clean + dirty, {"exhaustive_bound": "all histories over small alphabets, each ending in destruction: " + "; ".join(f"{k}: {v}" for k, v in families.items()),
                           "histories": len(clean) + len(dirty), "with_known_trigger": len(dirty)}


if a.tier == "exhaustive":
    hs, info = exhaustive()
    lines = [l for h in hs for l in h]
    open(a.out, "w").write("\n".join(lines) + "\n")
    info["ops"] = len(lines)
    print(json.dumps(info))
else:
    N = 600 if a.tier == "quick" else 3000
    hs = [history() for _ in range(N)]
    def richness(h):
        """How many of the life-cycle situations a history combines (the richest first, so that the framework's cap on
        examined failing histories is spent on them): a resume after a colour with an RGB8 refinement on a terminal
        with 24-bit colours, a buffered output with a pause, a shared terminal, a reply after the control was set."""
        ls = h.lines
        rgbpen = next((i for i, l in enumerate(ls) if l.startswith(("setpen", "chpen")) and "#" in l), None)
        capon = any(l.startswith("reply sgr") and l.endswith(" 1") or l.startswith("ctl xterm.cap_rgb8 1") for l in ls)
        score = 0
        if rgbpen is not None and capon and "resume" in ls[rgbpen:]:
            score += 2
        if ("buf=" in ls[0] or ls[0].startswith("new tickitb")) and "pause" in ls:
            score += 1
        if "termref" in ls:
            score += 1
        if any(l == "pause" and not n.startswith(("resume", "teardown", "unref", "termunref")) for l, n in zip(ls, ls[1:])):
            score += 1        # the program goes on between pause and resume / the end
        if "vis=0" in ls[0] and "reply mode 25 2" in ls:
            score += 1
        firstreply = next((i for i, l in enumerate(ls) if l.startswith("reply")), len(ls))
        if any(l.startswith("ctl cursor") for l in ls[1:firstreply]) and firstreply < len(ls):
            score += 1
        return -score
    clean = sorted([h for h in hs if not h.trigger], key=richness)
    dirty = sorted([h for h in hs if h.trigger], key=richness)
    lines = [l for h in clean + dirty for l in h.lines]
    open(a.out, "w").write("\n".join(lines) + "\n")
    trig = collections.Counter(t for h in dirty for t in h.trigger)
    lens = [len(h.lines) for h in hs]
    print(json.dumps({"histories": N, "ops": len(lines), "mean_len": round(sum(lens) / N, 1), "max_len": max(lens),
                      "without_known_trigger": len(clean), "with_known_trigger": dict(trig), "mix": dict(sorted(stat.items()))}))
