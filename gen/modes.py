#!/usr/bin/env python3
"""Operation generator for engine `modes` (C12).  All randomness from --seed.

Histories are structured: a terminal (directly, adopted by a toplevel instance, or built by one), the
terminal's replies to the start-up queries (prompt, late or absent; consistent with the VT's initial state
named on the `new` line), then control settings (valid, redundant, repeated, a labelled minority invalid),
pens, text, pause/resume cycles, and an ending in teardown and/or destruction.  Histories that contain a
trigger of a finding already recorded for the unrepaired tree are placed after the others, so that the
framework's cap on examined failing histories never hides a new failure behind known ones.
"""
import argparse, random, json, itertools, collections

ap = argparse.ArgumentParser()
ap.add_argument("--seed", type=int, default=1); ap.add_argument("--tier", default="quick")
ap.add_argument("--out", required=True); ap.add_argument("--prop", default="C12")
a = ap.parse_args()
rng = random.Random(a.seed)
stat = collections.Counter()

BOOLCTL = ["altscreen", "cursorvis", "cursorblink", "keypad_app"]
NUM = {"altscreen": 1, "cursorvis": 2, "mouse": 3, "cursorblink": 4, "cursorshape": 5, "keypad_app": 9}
ATTR_VALUES = {
    "fg": [-1, 0, 1, 3, 7, 8, 9, 15, 16, 100, 200, 255], "bg": [-1, 0, 2, 7, 8, 15, 16, 231, 255],
    "b": [0, 1], "u": [0, 1, 1, 0, 1, 1, 0, 1, 2, 3], "i": [0, 1], "rv": [0, 1], "s": [0, 1],
    "af": [-1, 0, 1, 5, 9, 10], "bl": [0, 1], "sp": [0, 2, 3, 0, 2, 3, 0, 2, 3, 1],
}
ATTRS = list(ATTR_VALUES)
TEXTS = ["6869", "78", "c3a9", "48656c6c6f20776f726c64", "20", "efbc91"]


def hexs(s):
    return s.encode().hex()


def pen():
    k = rng.choice([0, 1, 1, 2, 2, 3, 5, 10])
    names = sorted(rng.sample(ATTRS, k), key=ATTRS.index)
    if not names:
        return "-"
    return ",".join(f"{n}={rng.choice(ATTR_VALUES[n])}" for n in names)


class Hist:
    def __init__(self, kind):
        self.shape = rng.choice([0, 1, 2, 2, 3, 4, 5, 6])
        self.blink = 1 if (self.shape == 0 or self.shape % 2 == 1) else 0
        self.lines = [f"new {kind} blink={self.blink} shape={self.shape}"]
        self.kind = kind
        self.last = {}          # control -> last value set
        self.explicit = set()   # controls set explicitly (for the late-reply trigger)
        self.pen_nondefault = False
        self.trigger = set()
        self.pending = self.replies()

    def replies(self):
        r = [f"reply mode 25 1", f"reply mode 12 {1 if self.blink else 2}", f"reply mode 69 {rng.choice([1, 1, 2, 0])}",
             f"reply shape {self.shape}", f"reply sgr {rng.choice([0, 1])} {rng.choice([0, 1])}"]
        rng.shuffle(r)
        return r

    def add(self, line):
        self.lines.append(line)
        stat["op:" + line.split()[0]] += 1

    def deliver(self, n=None):
        n = len(self.pending) if n is None else min(n, len(self.pending))
        for _ in range(n):
            line = self.pending.pop(0)
            p = line.split()
            if p[1] == "mode" and p[2] == "25" and p[3] == "1" and "cursorvis" in self.explicit and self.last.get("cursorvis") == 0:
                self.trigger.add("late_reply")
            if p[1] == "mode" and p[2] == "12" and "cursorblink" in self.explicit and (p[3] == "1") != (self.last.get("cursorblink", 0) != 0) and p[3] == "1":
                self.trigger.add("late_reply")
            if p[1] == "shape" and "cursorshape" in self.explicit:
                self.trigger.add("late_reply")
            self.add(line)

    def ctl(self):
        r = rng.random()
        if r < 0.04:   # a number that is no integer control of the driver
            self.add(f"ctl #{rng.choice([0, 6, 7, 8, 10, 11, 99, 8193, 8194, 8195, 8197, -1])} {rng.choice([0, 1, 2])}")
            stat["ctl:not-a-control"] += 1
            return
        if r < 0.07:
            self.add(f"ctl xterm.cap_rgb8 {rng.choice([0, 1, 5])}")
            return
        c = rng.choice(["altscreen", "cursorvis", "mouse", "mouse", "cursorblink", "cursorshape", "keypad_app"])
        if c in self.last and rng.random() < 0.25:
            v = self.last[c]; stat["ctl:redundant"] += 1
        elif rng.random() < 0.06:
            v = rng.choice([4, 5, 7, -1, 8] if c in ("mouse", "cursorshape") else [2, -1, 100, 256]); stat["ctl:invalid-value"] += 1
        elif c == "mouse":
            v = rng.choice([0, 1, 2, 3])
        elif c == "cursorshape":
            v = rng.choice([1, 2, 3, 0])
        else:
            v = rng.choice([0, 1])
        name = c if rng.random() < 0.8 else f"#{NUM[c]}"
        self.last[c] = v
        self.explicit.add(c)
        if c == "keypad_app" and v != 0:
            self.trigger.add("keypad_shadow")
        self.add(f"ctl {name} {v}")

    def body_op(self):
        r = rng.random()
        if r < 0.45:
            self.ctl()
        elif r < 0.60:
            p = pen()
            self.add(f"{rng.choice(['setpen', 'setpen', 'chpen'])} {p}")
            if any(f in ("u=2", "u=3", "sp=1") for f in p.split(",")):
                stat["contract:pen-value-without-exact-encoding"] += 1
            if any(not f.endswith(("=0", "=-1")) for f in p.split(",")) and p != "-":
                self.pen_nondefault = True
        elif r < 0.70:
            self.add(f"print {rng.choice(TEXTS)}")
        elif r < 0.80:
            self.add("pause")
            x = rng.random()
            if x < 0.10:     # out of contract: something between pause and resume
                if self.pending and x < 0.05:
                    self.deliver(1)      # a reply while libtermkey is stopped waits in its buffer
                else:
                    self.ctl()
                stat["contract:op-while-paused"] += 1
            if x < 0.93:
                self.add("resume")
                if self.pen_nondefault:
                    self.trigger.add("pause_pen")
            else:
                self.ended_paused = True
        elif r < 0.84:
            self.add(f"setstr {rng.choice(['title_text', 'icon_text', 'icontitle_text', 'title_text', 'mouse', '#7'])} {hexs(rng.choice(['title here', 'x', 'a;b c']))}")
        elif r < 0.87:
            self.add(f"await {rng.choice([0, 1, 50])}")
        elif r < 0.90:
            self.add(rng.choice(["clear", "flush"]))
        elif r < 0.93:
            if self.pending:
                self.deliver(rng.randint(1, 2))
            else:
                self.ctl()
        elif r < 0.94:
            self.add("resume"); stat["contract:resume-without-pause"] += 1
        elif self.kind != "term" and r < 0.98:
            self.tick()
        else:
            self.ctl()

    def tick(self):
        nosetup = rng.random() < 0.15
        if not nosetup and not getattr(self, "done_setup", False):
            self.done_setup = True
            self.trigger.add("keypad_shadow")
            self.last.update(cursorvis=0, mouse=2, keypad_app=1)
            self.explicit.update(["cursorvis", "mouse", "keypad_app"])
        self.add("tick nosetup" if nosetup else "tick")

    def finish(self):
        r = rng.random()
        if getattr(self, "ended_paused", False):
            end = rng.choice([["unref"], ["teardown", "unref"]]); stat["end:while-paused"] += 1
        elif r < 0.5:
            end = ["unref"]
        elif r < 0.8:
            end = ["teardown", "unref"]
        elif r < 0.9:
            end = ["pause", "unref"]
        elif r < 0.95:
            end = ["teardown"]
            if rng.random() < 0.5:   # out of contract: a setting or a reply after teardown
                end += [rng.choice([f"ctl mouse {rng.choice([1, 2])}", "reply mode 12 1", "reply mode 25 1"]), "unref"]; stat["contract:op-after-teardown"] += 1
        else:
            end = ["pause", "teardown", "unref"]
        for e in end:
            self.add(e)
        stat["end:" + "+".join(x.split()[0] for x in end)] += 1


def history():
    kind = rng.choice(["term"] * 7 + ["tickit"] * 2 + ["tickitb"])
    h = Hist(kind)
    stat["kind:" + kind] += 1
    mode = rng.random()
    if mode < 0.6:
        h.deliver(); stat["replies:prompt"] += 1
    elif mode < 0.75:
        h.pending = []; stat["replies:none"] += 1
    else:
        stat["replies:late"] += 1
    if kind != "term":
        if rng.random() < 0.4:
            h.add(f"usealt {rng.choice([0, 0, 1, 2, 3])}")
        if rng.random() < 0.85:
            h.tick()
    for _ in range(rng.randint(2, 22)):
        if getattr(h, "ended_paused", False):
            break
        h.body_op()
    h.finish()
    return h


def exhaustive():
    """Every history of at most `depth` operations over a small alphabet, each ending in destruction."""
    alpha = ["ctl altscreen 1", "ctl altscreen 0", "ctl cursorvis 0", "ctl cursorvis 1", "ctl mouse 2", "ctl mouse 0",
             "setpen b=1", "pause", "resume", "teardown", "reply mode 25 1", "ctl keypad_app 1"]
    depth = 4
    clean, dirty = [], []
    for n in range(depth + 1):
        for seq in itertools.product(alpha, repeat=n):
            (dirty if ("ctl keypad_app 1" in seq or "reply mode 25 1" in seq or ("setpen b=1" in seq and "resume" in seq)) else clean).append(
                ["new term blink=0 shape=2"] + list(seq) + ["unref"])
    for kind in ("tickit", "tickitb"):
        for seq in itertools.product(["tick", "usealt 0", "pause", "resume", "ctl mouse 0", "ctl altscreen 0", "teardown"], repeat=3):
            dirty.append([f"new {kind} blink=1 shape=1"] + list(seq) + ["unref"])
    return clean + dirty, {"exhaustive_bound": f"all histories of <= {depth} operations over {len(alpha)} operations on a terminal, and of 3 over 7 on both kinds of toplevel instance, each ending in unref",
                           "histories": len(clean) + len(dirty), "with_known_trigger": len(dirty)}


if a.tier == "exhaustive":
    hs, info = exhaustive()
    lines = [l for h in hs for l in h]
    open(a.out, "w").write("\n".join(lines) + "\n")
    info["ops"] = len(lines)
    print(json.dumps(info))
else:
    N = 400 if a.tier == "quick" else 3000
    hs = [history() for _ in range(N)]
    clean = [h for h in hs if not h.trigger]
    dirty = [h for h in hs if h.trigger]
    lines = [l for h in clean + dirty for l in h.lines]
    open(a.out, "w").write("\n".join(lines) + "\n")
    trig = collections.Counter(t for h in dirty for t in h.trigger)
    lens = [len(h.lines) for h in hs]
    print(json.dumps({"histories": N, "ops": len(lines), "mean_len": round(sum(lens) / N, 1), "max_len": max(lens),
                      "without_known_trigger": len(clean), "with_known_trigger": dict(trig), "mix": dict(sorted(stat.items()))}))
