#!/usr/bin/env python3
"""Operation generator for engine `bindings` (C16).  All randomness from --seed.

A history = `new pen|term|twin|win`, behaviour tables (`beh h n ret actions…`), then bind / unbind / emit / destroy
operations.  Histories are structured: mostly valid slots and events of the owner, all 16 flag
combinations, behaviours biased towards the interleavings the property names (unbind of a later
handler from an earlier one, self-unbind, one-shot re-entered, bind while iterating, unbind from an
unbind notification).  Destroying the owner from inside a handler is not generated (the code does not
support it: corpus/C16 has the probe).

`twin` is a terminal on which root windows come and go (window.c binds three handlers on the terminal and unbinds them by the
identifiers it kept: rootnew / rootref / rootclose / rootunref between the application's binds, unbinds and emissions); `win` is
the root window itself as the owner of the bindings (GEOMCHANGE, EXPOSE, FOCUS through run_events; KEY and MOUSE through the
terminal, window.c's handlers on it and run_events_whilefalse).

--tier exhaustive: every history over a tiny alphabet (see `exhaustive()`).
"""
import argparse, random, json, itertools, collections

ap = argparse.ArgumentParser()
ap.add_argument("--seed", type=int, default=1); ap.add_argument("--tier", default="quick")
ap.add_argument("--out", required=True); ap.add_argument("--prop", default="C16")
a = ap.parse_args()
rng = random.Random(a.seed * 7919 + 16)

stats = collections.Counter()
lines = []

EVENTS = {"pen": [1], "term": [1, 2, 3], "twin": [1, 2, 3], "win": [1, 2, 3, 4, 5]}
WF_EVENTS = {"pen": [], "term": [2, 3], "twin": [2, 3], "win": [4, 5]}     # delivered by run_events_whilefalse
OWNERS = ["pen", "term", "twin", "win"]
OWNER_W = [0.3, 0.25, 0.25, 0.2]


def pick_owner():
    return rng.choices(OWNERS, OWNER_W)[0]


def pick_event(owner, for_bind):
    r = rng.random()
    if for_bind and r < 0.06:
        return 0                      # the destroy event
    if for_bind and r < 0.08:
        return 5                      # an event index the owner never emits
    if not for_bind and r < 0.03:
        return rng.choice([0, 4, 7])  # not emittable: ignored by harness and model alike
    evs = EVENTS[owner]
    # concentrate on one or two events so that handlers meet
    return evs[0] if rng.random() < 0.5 else rng.choice(evs)


def pick_flags():
    f = rng.randrange(16)
    r = rng.random()
    if r < 0.15:
        f |= 8                        # more one-shots
    elif r < 0.30:
        f |= 2                        # more unbind notifications
    elif r < 0.33:
        f |= 16                       # a bit outside the enum: masked off by bind_event
    return f


PEN_CODES = ["b0", "b1", "c2", "c3", "k00", "k01", "k10", "k11", "k20", "k21", "k30", "k31", "k41", "a2", "a4", "a3", "d3", "d5", "D3", "D5",
             "h3", "h7", "h8", "h12", "n0", "n1", "n2", "n3", "n4", "n5"]


def pen_code():
    """An operation on the owner pen that may emit ON_CHANGE: plain setters, and freeze..thaw regions (copy from a template
    with/without overwrite, copy_attr of a colour with/without RGB8, a colour description with/without #rgb); biased to
    operations that, repeated, change nothing."""
    c = rng.choice(PEN_CODES) if rng.random() < 0.6 else rng.choice(["k01", "k31", "k21", "a2", "D3", "b1"])
    stats["pen_" + c[0]] += 1
    return c


def gen_action(owner, nh, maxslot, style, penops=False):
    r = rng.random()
    if penops and r < 0.3:
        stats["act_p"] += 1
        return "p:" + pen_code()
    if style == "bindy":
        w = [0.45, 0.15, 0.1, 0.3]
    elif style == "unbindy":
        w = [0.15, 0.4, 0.2, 0.25]
    else:
        w = [0.25, 0.25, 0.15, 0.35]
    k = rng.choices(["b", "u", "us", "e"], w)[0]
    if rng.random() < 0.02 and not penops and owner in ("pen", "term"):
        k = "d"                      # drop the handlers' reference to the owner (the interpreter does it once)
    stats["act_" + k] += 1
    if k == "d":
        return "d"
    if k == "b":
        return "b:%d:%d:%d" % (pick_event(owner, True), pick_flags(), rng.randrange(nh))
    if k == "u":
        return "u:%d" % rng.randrange(0, maxslot + 2)
    if k == "us":
        return "us"
    return "e:%d" % pick_event(owner, False)


def root_op(st):
    """A root-window operation of the `twin` configuration, biased to what is possible: st = [references held, closed]."""
    if st[0] == 0:
        op = "rootnew" if rng.random() < 0.85 else rng.choice(["rootref", "rootclose", "rootunref"])
    else:
        op = rng.choices(["rootref", "rootclose", "rootunref", "rootnew"], [0.25, 0.25, 0.45, 0.05])[0]
    if op == "rootnew" and st[0] == 0:
        st[0], st[1] = 1, 0
    elif op == "rootref" and st[0]:
        st[0] += 1
    elif op == "rootunref" and st[0]:
        st[0] -= 1
    stats["op_" + op] += 1
    return op


def history(kind):
    owner = pick_owner()
    stats["owner_" + owner] += 1
    stats["kind_" + kind] += 1
    out = ["new " + owner]
    nh = rng.randint(1, 4)
    nops = rng.randint(3, 22)
    style = rng.choice(["bindy", "unbindy", "mixed"])
    penops = owner == "pen" and rng.random() < 0.6     # the pen is also changed through freeze..thaw regions
    if penops:
        stats["kind_penops"] += 1
    behs = []
    if kind != "linear":
        for h in range(nh):
            depth = rng.choice([0, 1, 1, 2, 3, 4])
            for n in range(depth):
                if rng.random() < 0.25:
                    continue              # this invocation does nothing
                nact = rng.choice([0, 1, 1, 1, 2, 2, 3])
                ret = 1 if (WF_EVENTS[owner] and rng.random() < 0.2) else 0
                acts = [gen_action(owner, nh, 6, style, penops) for _ in range(nact)]
                behs.append("beh %d %d %d %s" % (h, n, ret, " ".join(acts)))
                stats["beh_lines"] += 1
                stats["beh_actions_%d" % nact] += 1
    if rng.random() < 0.8:
        out += behs
        behs = []
    nb = 0
    rootst = [0, 0]
    for i in range(nops):
        if behs and rng.random() < 0.3:
            out.append(behs.pop(0))
        if owner == "twin" and rng.random() < (0.5 if i == 0 else 0.22):
            if rootst[0] == 0 and "rootnew" in out:
                pass
            op = root_op(rootst)
            out.append(op)
            if op == "rootnew":
                nb += 3                   # the three slots window.c's bindings take
            continue
        if owner == "win" and rng.random() < 0.04:
            out.append("rootclose"); stats["op_rootclose"] += 1      # the owner window is closed: its bindings stay
            continue
        r = rng.random()
        if nb == 0 or r < 0.40:
            out.append("bind %d %d %d" % (pick_event(owner, True), pick_flags(), rng.randrange(nh)))
            nb += 1; stats["op_bind"] += 1
        elif r < 0.72:
            if penops and rng.random() < 0.6:
                out.append("pen " + pen_code()); stats["op_pen"] += 1
            else:
                out.append("emit %d" % pick_event(owner, False)); stats["op_emit"] += 1
        elif r < 0.93:
            # mostly existing slots (slots created inside handlers are beyond nb: allow a margin)
            out.append("unbind %d" % rng.randrange(0, nb + 3)); stats["op_unbind"] += 1
        elif r < 0.96:
            # (twin: the identifiers window.c holds are not the application's to unbind)
            out.append("unbindid %d" % rng.choice([0, 99] if owner == "twin" else [0, 1, 2, 3, 5, 99])); stats["op_unbindid"] += 1
        else:
            out.append("destroy"); stats["op_destroy"] += 1
            break
    out += behs
    if out[-1] != "destroy" and rng.random() < 0.7:
        out.append("destroy"); stats["op_destroy"] += 1
    return out


def root_scenario():
    """A root window's life on a terminal (twin), interleaved with the application's own bindings on that terminal: created
    before / between / after the application's binds, referenced more than once, closed while still referenced, released in
    steps, re-created; key, mouse and resize events between every two steps; unbinds of the application's own slots."""
    stats["root_scenario"] += 1
    stats["owner_twin"] += 1
    o = ["new twin"]
    nh = rng.randint(1, 3)
    f = lambda: rng.choice([0, 0, 2, 2, 4, 6, 8, 10, 1, 3])
    ev = lambda: rng.choice([1, 2, 2, 2, 3])
    if rng.random() < 0.4:
        act = rng.choice(["us", "u:%d" % rng.randrange(6), "b:%d:%d:%d" % (ev(), f(), rng.randrange(nh)), "e:%d" % ev()])
        o.append("beh %d %d %d %s" % (rng.randrange(nh), rng.randrange(2), rng.choice([0, 0, 1]), act))
    slots = []            # the application's slots
    nslots = 0
    rootst = [0, 0]
    steps = rng.randint(6, 16)
    for i in range(steps):
        r = rng.random()
        if r < 0.38:
            op = root_op(rootst)
            o.append(op)
            if op == "rootnew" and rootst[0] == 1 and o.count("rootnew") >= 1:
                pass
        elif r < 0.62:
            o.append("bind %d %d %d" % (ev(), f(), rng.randrange(nh))); stats["op_bind"] += 1
        elif r < 0.88:
            o.append("emit %d" % ev()); stats["op_emit"] += 1
        else:
            o.append("unbind %d" % rng.randrange(0, 8)); stats["op_unbind"] += 1
    # let whatever is left of the root window go step by step, with events in between
    while rootst[0] > 0 and rng.random() < 0.8:
        o.append("rootunref"); rootst[0] -= 1; stats["op_rootunref"] += 1
        if rng.random() < 0.5:
            o.append("emit %d" % ev()); stats["op_emit"] += 1
    o.append("emit 2"); o.append("emit %d" % ev())
    if rng.random() < 0.8:
        o.append("destroy")
    return o


def scenario():
    """Hand-shaped families around the interleavings the property text names, with random fill."""
    owner = pick_owner()
    ev = rng.choice(EVENTS[owner])
    fam = rng.randrange(10)
    stats["scenario_%d" % fam] += 1
    if fam >= 8:      # a change handler re-applies a template (or changes something) from inside a batched occurrence
        o = ["new pen"]
        inner = rng.choice(["k01", "k01", "k31", "k21", "a2", "D3", "b1", "k11", "c2"])
        outer = rng.choice(["k01", "k31", "k21", "a2", "D3", "k30", "d3"])
        o += ["beh 0 0 0 p:%s" % inner, "beh %d %d 0 p:%s" % (rng.randrange(2), rng.randrange(1, 3), rng.choice(["k01", "k11", "D5", "b0"])),
              "bind 1 %d 0" % rng.choice([0, 2, 4]), "bind 1 %d 1" % rng.choice([0, 2, 8]),
              "pen " + rng.choice(["k01", "b1", "k31"]), "pen " + outer, "pen " + outer, "emit 1"]
        if rng.random() < 0.8:
            o.append("destroy")
        stats["owner_pen"] += 1
        return o
    stats["owner_" + owner] += 1
    o = ["new " + owner]
    f = lambda: rng.choice([0, 2, 4, 6])
    if fam == 0:      # an earlier handler unbinds a later one during the walk
        o += ["beh 0 0 0 u:%d" % rng.choice([1, 2]), "bind %d %d 0" % (ev, f()), "bind %d %d 1" % (ev, f()), "bind %d %d 2" % (ev, f()),
              "emit %d" % ev, "emit %d" % ev]
    elif fam == 1:    # self-unbind while running, then again
        o += ["beh 0 0 0 us", "beh 0 1 0 us", "bind %d %d 0" % (ev, f()), "bind %d %d 1" % (ev, f()), "emit %d" % ev, "emit %d" % ev]
    elif fam == 2:    # one-shot and re-entrant emission
        o += ["beh 0 0 0 e:%d" % ev, "bind %d %d 0" % (ev, f()), "bind %d %d 1" % (ev, 8 | f()), "bind %d %d 2" % (ev, f()), "emit %d" % ev, "emit %d" % ev]
    elif fam == 3:    # one-shot that re-emits its own event from its first invocation (mostly on the run_event path)
        if owner != "pen" and rng.random() < 0.7:
            ev = rng.choice([e for e in EVENTS[owner] if e not in WF_EVENTS[owner]])
        extra = rng.choice(["", " e:%d" % ev, " b:%d:%d:1" % (ev, f()), " us"])
        o += ["beh 0 0 0 e:%d%s" % (ev, extra), "bind %d %d 0" % (ev, 8 | f()), "bind %d %d 1" % (ev, f()), "emit %d" % ev, "emit %d" % ev]
    elif fam == 4:    # bind (first / last) while iterating
        o += ["beh 0 0 0 b:%d:%d:1 b:%d:%d:2" % (ev, 1 | f(), ev, f()), "bind %d %d 0" % (ev, f()), "bind %d %d 1" % (ev, f()), "emit %d" % ev, "emit %d" % ev]
    elif fam == 5:    # unbind notification that unbinds / binds / emits
        act = rng.choice(["u:0", "u:1", "u:2", "us", "e:%d" % ev, "b:%d:1:1" % ev, "b:%d:0:1" % ev])
        o += ["beh 0 0 0 %s" % act, "bind %d %d 1" % (ev, f()), "bind %d %d 0" % (ev, 2 | f()), "bind %d %d 1" % (ev, rng.choice([0, 8]) | f()),
              "unbind 1", "emit %d" % ev]
    elif fam == 6:    # claim / decline chains on key events, one-shot among them
        if owner == "pen":
            owner = "term"; o[0] = "new term"
        ev = rng.choice(WF_EVENTS[owner])
        o += ["beh 1 %d 1" % rng.randrange(3), "bind %d %d 0" % (ev, rng.choice([0, 8])), "bind %d %d 1" % (ev, rng.choice([0, 8, 1])), "bind %d 0 2" % ev,
              "emit %d" % ev, "emit %d" % ev, "emit %d" % ev]
    else:             # destroy with every kind of asker
        o += ["bind 0 %d 0" % rng.randrange(16), "bind %d %d 1" % (ev, rng.randrange(16)), "bind %d %d 2" % (ev, rng.randrange(16)),
              "unbind %d" % rng.randrange(3), "emit %d" % ev]
    # random perturbation: drop or duplicate one line
    if len(o) > 3 and rng.random() < 0.3:
        i = rng.randrange(1, len(o)); o.insert(i, o[i])
    if owner == "twin" and rng.random() < 0.5:
        # a root window comes at the very end of the binds and goes before the last emission: slot numbers stay as written
        last_bind = max(i for i, l in enumerate(o) if l.startswith("bind "))
        o.insert(last_bind + 1, "rootnew")
        o.insert(rng.randrange(last_bind + 2, len(o) + 1), "rootunref")
    if rng.random() < 0.8:
        o.append("destroy")
    return o


def destroy_scenario():
    """The owner's last reference is dropped from inside one of its handlers (exactly one `d` per history).  Supported only
    when the owner's emitters hold a reference (fixes/C16_emitter_ref.patch); otherwise the known finding destroy_in_handler."""
    owner = rng.choice(["pen", "term"])
    ev = rng.choice(EVENTS[owner])
    stats["destroy_in_handler"] += 1
    stats["owner_" + owner] += 1
    f = lambda: rng.choice([0, 2, 4, 6, 8, 10])
    o = ["new " + owner]
    fam = rng.randrange(6)
    ret = 1 if (owner == "term" and ev >= 2 and rng.random() < 0.4) else 0
    if fam == 0:      # plain: first, middle or last handler of the walk
        k = rng.randrange(3)
        o += ["beh %d 0 %d d" % (k, ret)] + ["bind %d %d %d" % (ev, f(), h) for h in range(3)]
    elif fam == 1:    # goes on using the owner after dropping the reference
        more = rng.choice(["e:%d" % ev, "b:%d:%d:1" % (ev, f()), "us", "u:1", "b:0:0:2"])
        o += ["beh 0 0 %d d %s" % (ret, more), "bind %d %d 0" % (ev, f()), "bind %d %d 1" % (ev, f())]
    elif fam == 2:    # from a nested emission
        o += ["beh 0 0 0 e:%d" % ev, "beh 1 0 0", "beh 1 1 %d d" % ret, "bind %d %d 0" % (ev, f()), "bind %d %d 1" % (ev, f()), "bind 0 %d 2" % f()]
    elif fam == 3:    # from an unbind notification under a walker
        o += ["beh 0 0 0 u:1", "beh 1 0 0 d", "bind %d %d 0" % (ev, f()), "bind %d %d 1" % (ev, 2 | f()), "bind %d %d 2" % (ev, f())]
    elif fam == 4:    # with tombstones pending: unbind others, then drop the reference
        o += ["beh 0 0 %d u:1 u:2 d" % ret, "bind %d %d 0" % (ev, f()), "bind %d %d 1" % (ev, 2 | f()), "bind %d %d 2" % (ev, 6), "bind %d %d 1" % (ev, f())]
    else:             # one-shot handler drops it
        o += ["beh 0 0 %d d" % ret, "bind %d %d 1" % (ev, f()), "bind %d %d 0" % (ev, 8 | f()), "bind %d %d 1" % (ev, 4)]
    o += ["emit %d" % ev, "emit %d" % ev]
    return o


def exhaustive():
    """Every history of the shape
         new pen; [beh 0 0 0 A1 [A2]]; bind 1 F1 0; bind 1 F2 1; [bind 1 F3 0]; OP; emit 1; emit 1; destroy
       over  A ∈ {us, u:0, u:1, e:1, b:1:0:1, b:1:1:1, b:1:8:1},  F ∈ 16 flag sets for one binding and {0, 2, 8, 10} for the others,
       OP ∈ {emit 1, unbind 0, unbind 1}; handler 0 acts at its first invocation only."""
    acts = ["us", "u:0", "u:1", "e:1", "b:1:0:1", "b:1:1:1", "b:1:8:1"]
    behs = [[]] + [[x] for x in acts] + [[x, y] for x in acts for y in acts]
    small = [0, 2, 8, 10]
    n = 0
    for beh in behs:
        for f1 in range(16):
            for f2 in small:
                for third in [None, 0, 8]:
                    for op in ["emit 1", "unbind 0", "unbind 1"]:
                        h = ["new pen"]
                        if beh:
                            h.append("beh 0 0 0 " + " ".join(beh))
                        h += ["bind 1 %d 0" % f1, "bind 1 %d 1" % f2]
                        if third is not None:
                            h.append("bind 1 %d 0" % third)
                        h += [op, "emit 1", "emit 1", "destroy"]
                        lines.extend(h); n += 1
    # the stop-at-first-claim walker: key events of a terminal, handler 0 claiming or declining
    acts2 = ["us", "u:0", "u:1", "e:2", "b:2:0:1", "b:2:1:1", "b:2:8:1"]
    behs2 = [[]] + [[x] for x in acts2] + [[x, y] for x in acts2 for y in acts2]
    for beh in behs2:
        for ret in (0, 1):
            for f1 in range(16):
                for f2 in small:
                    for op in ["emit 2", "unbind 0", "unbind 1"]:
                        h = ["new term"]
                        if beh or ret:
                            h.append(("beh 0 0 %d " % ret + " ".join(beh)).rstrip())
                        h += ["bind 2 %d 0" % f1, "bind 2 %d 1" % f2, op, "emit 2", "emit 2", "destroy"]
                        lines.extend(h); n += 1
    # a root window's life on a terminal (window.c binding and unbinding its three handlers by identifier) against the
    # application's own bindings: every sequence of up to 5 steps over
    #   rootnew, rootref, rootclose, rootunref, bind key (wants unbind notification), bind key (plain, handler 1),
    #   emit key, unbind of the application's first slot
    # that creates a root window; then a key event and the destruction of the terminal.
    syms = ["rootnew", "rootref", "rootclose", "rootunref", "bindU", "bindP", "emit 2", "unbindA"]
    for ln in range(1, 6):
        for seq in itertools.product(syms, repeat=ln):
            if "rootnew" not in seq:
                continue
            h = ["new twin"]
            nslots, refs, first_app = 0, 0, None
            for x in seq:
                if x == "rootnew":
                    if refs == 0:
                        refs = 1; nslots += 3
                    h.append(x)
                elif x == "rootref":
                    refs += 1 if refs else 0; h.append(x)
                elif x == "rootunref":
                    refs -= 1 if refs else 0; h.append(x)
                elif x in ("bindU", "bindP"):
                    if first_app is None:
                        first_app = nslots
                    nslots += 1
                    h.append("bind 2 2 0" if x == "bindU" else "bind 2 0 1")
                elif x == "unbindA":
                    h.append("unbind %d" % (first_app if first_app is not None else nslots))
                else:
                    h.append(x)
            h += ["emit 2", "destroy"]
            lines.extend(h); n += 1
    stats["exhaustive_histories"] = n
    return ("handler 0 with <=2 actions out of 7 at its first invocation x 16 flag sets (binding 0) x 4 (binding 1) x optional third binding "
            "x 3 operations on a pen (run_event); the same with claim/decline x 16 x 4 x 3 operations on a terminal's key event (run_event_whilefalse); "
            "every sequence of <=5 steps over {rootnew, rootref, rootclose, rootunref, bind key wanting unbind, bind key plain, emit key, unbind first "
            "application slot} containing a rootnew, on a terminal, followed by a key event and destroy")


bound = None
if a.tier == "exhaustive":
    bound = exhaustive()
else:
    n_hist = 1500 if a.tier == "quick" else 10000
    tail_histories, head_histories, body_histories = [], [], []
    for i in range(n_hist):
        r = rng.random()
        if r < 0.04:
            tail_histories.append(destroy_scenario())   # kept together at the end: on a tree without the emitter
            continue                                    # references they abort their batch of 64 histories
        elif r < 0.12:
            head_histories.append(root_scenario())
            continue
        elif r < 0.20:
            h = history("linear")
        elif r < 0.75:
            h = history("reentrant")
        else:
            head_histories.append(scenario())           # the hand-shaped interleavings run first: a violation of a clause
            continue                                    # is then reported before mere correspondence breaks
        body_histories.append(h)
    for h in head_histories + body_histories + tail_histories:
        lines.extend(h)
    stats["histories"] = n_hist

open(a.out, "w").write("\n".join(lines) + "\n")
d = dict(stats)
d["ops"] = len(lines)
if bound:
    d["exhaustive_bound"] = bound
print(json.dumps(d, sort_keys=True))
