#!/usr/bin/env python3
"""Operation generator for engine `sgr` (C10).  All randomness from --seed.

Histories of setpen/chpen on a terminal in one of two configurations (see harness/sgr.c):
  x  real xterm driver, capabilities (rgb8, colon) in {0,1}^2, set by DECRQSS reply or by the private control
  g  harness-owned driver reporting colors in {8,16,88,256}, (rgb8, colon) only used by the composed model encoder

Pens: every attribute subset, values in range (colour -1..255 with and without RGB secondary, under 0..3,
altfont -1..9 (rarely the storable 10..15), sizepos normal/superscript/subscript), adversarial around the
boundaries 7/8, 15/16, colors-1/colors, 255, the parameter-count boundary 16 of `int params[16]`, requests that
change nothing, and requests that make everything default (the empty-SGR shortcut).

The generator tracks the logical pen so that it can (a) produce many genuine no-op requests (also with colours beyond the
palette, which used to be re-sent) and requests that need 17..19 SGR parameters (which used to overflow params[16]) and
(b) keep the inputs that trigger the *remaining* known findings of C10 (known/C10.json: curly underline without colon
sub-parameters, TICKIT_PEN_SIZEPOS_SMALL) out of the main stream: those are produced deliberately, in a small number of
histories placed at the END of the file, so that they never use up the per-run budget of histories bin/check examines.
A quarter of the histories start with a pen already in force (`new … <pen>`: see harness/sgr.c), and a systematic sweep asks,
for every attribute and every class of value it can take (including the values no SGR parameter exists for), for a request
whose ONLY effective change is that attribute while a non-default pen is in force -- once by chpen {attr}, once by setpen of the
whole logical pen with that attribute replaced: such a request must leave everything else on the terminal as it is.  The
members of the sweep that run into a known finding are, again, placed at the end.
About 30% of the x configurations run with an output buffer (`outbuf n`, n in 1..256, issued right after construction while nothing
is pending) and `flush` after a request with probability 0.3 and at the end; half of them start with a short chpen that stays
pending followed by a setpen whose SGR string is long and takes the attribute back.  No pause + resume in those histories.
Tiers: quick, thorough (x10), exhaustive (every history of <= 3 requests over a pen basis, for every configuration).
"""
import argparse, random, json, itertools, collections

ap = argparse.ArgumentParser()
ap.add_argument("--seed", type=int, default=1); ap.add_argument("--tier", default="quick")
ap.add_argument("--out", required=True); ap.add_argument("--prop", default="C10")
a = ap.parse_args()
rng = random.Random(a.seed * 7919 + 17)

ATTRS = ["fg", "bg", "b", "u", "i", "rv", "strike", "af", "blink", "sizepos"]
BOOLS = ["b", "i", "rv", "strike", "blink"]
DEFAULT = {"fg": (-1, None), "bg": (-1, None), "b": 0, "u": 0, "i": 0, "rv": 0, "strike": 0, "af": 0, "blink": 0, "sizepos": 0}

stats = collections.Counter()


def pen_text(p):
    if not p:
        return "-"
    out = []
    for k in ATTRS:
        if k not in p:
            continue
        v = p[k]
        if k in ("fg", "bg"):
            out.append("%s=%d%s" % (k, v[0], "" if v[1] is None else "#%02x%02x%02x" % v[1]))
        else:
            out.append("%s=%d" % (k, v))
    return ",".join(out)


def total(p):
    return {k: p.get(k, DEFAULT[k]) for k in ATTRS}


def overlay(l, p):
    r = dict(l); r.update(p); return r


def cost(cfg, p, is_set):
    """upper bound of the number of SGR parameters the request can need"""
    n = 0
    for k in ATTRS:
        if k not in p:
            n += 1 if is_set else 0
            continue
        v = p[k]
        if k in ("fg", "bg"):
            if v[0] < 0: n += 1
            elif cfg["rgb8"] and v[1] is not None and v[0] < cfg["colors"]: n += 5
            elif v[0] >= cfg["colors"]: n += 1
            elif v[0] < 16: n += 1
            else: n += 3
        elif k == "u":
            n += 2 if v >= 2 else 1
        else:
            n += 1
    return n


def attr_params(cfg, k, v):
    if k in ("fg", "bg"):
        if v[0] < 0: return 1
        if v[0] >= cfg["colors"]: return 1          # converted to < 16
        if cfg["rgb8"] and v[1] is not None: return 5
        return 1 if v[0] < 16 else 3
    if k == "u": return 2 if v >= 2 else 1
    if k == "sizepos": return 0 if v == 1 else 1
    return 1


def delta_params(cfg, l, p, is_set):
    """parameters the request needs, given that the cached pen equals the logical pen (true when colors = 256)"""
    eff = total(p) if is_set else p
    return sum(attr_params(cfg, k, eff[k]) for k in ATTRS if k in eff and (k not in l or l[k] != eff[k]))


def triggers(cfg, l, p, is_set):
    """the known findings this request would run into"""
    t = set()
    eff = total(p) if is_set else p
    if not cfg["colon"] and eff.get("u", 0) >= 3:
        t.add("under")
    if eff.get("sizepos", 0) == 1:
        t.add("small")
    return t


def rgb_byte():
    return rng.choice([0, 0, 1, 9, 10, 99, 100, 127, 128, 254, 255, 255, rng.randrange(256), rng.randrange(256)])


RECENT = []   # colours handed out recently in this history stream: near-misses of them are worth asking for


def colour(cfg):
    # near-miss of a recent colour: same index with the RGB secondary added (notably #000000, which reads back like
    # "no RGB" through the getter), dropped, or changed in one component -- the cases an "already equal?" test can get wrong
    if RECENT and rng.random() < 0.18:
        idx, rgb = rng.choice(RECENT[-6:])
        kind = rng.random()
        if rgb is None:
            nm = (idx, (0, 0, 0)) if kind < 0.6 else (idx, (rgb_byte(), rgb_byte(), rgb_byte()))
        elif kind < 0.4:
            nm = (idx, None)
        elif kind < 0.7:
            q = list(rgb); q[rng.randrange(3)] = rng.choice([0, 255, (q[0] + 1) % 256]); nm = (idx, tuple(q))
        else:
            nm = (idx, (0, 0, 0))
        RECENT.append(nm)
        return nm
    r = _colour(cfg)
    RECENT.append(r)
    del RECENT[:-12]
    return r


def _colour(cfg):
    c = cfg["colors"]
    idx = rng.choice([-1, -1, 0, 1, 7, 8, 9, 15, 16, 17, c - 1, c, c + 1, 87, 88, 200, 231, 232, 254, 255,
                      rng.randrange(256), rng.randrange(256), rng.randrange(16)])
    idx = max(-1, min(255, idx))
    rgb = (rgb_byte(), rgb_byte(), rgb_byte()) if rng.random() < 0.4 else None
    return (idx, rgb)


def value(cfg, k, allow):
    if k in ("fg", "bg"):
        return colour(cfg)
    if k in BOOLS:
        return rng.choice([0, 1, 1])
    if k == "u":
        return rng.choice([0, 1, 1, 2, 3]) if (cfg["colon"] or "under" in allow) else rng.choice([0, 1, 1, 2, 2])
    if k == "af":
        return rng.choice([-1, 0, 1, 2, 5, 8, 9, 9, rng.randrange(-1, 10), rng.choice([10, 11, 15]) if rng.random() < 0.15 else 3])
    if k == "sizepos":
        return rng.choice([0, 2, 3, 1]) if "small" in allow else rng.choice([0, 2, 3])


def random_pen(cfg, allow):
    shape = rng.random()
    if shape < 0.06:
        ks = []
    elif shape < 0.30:
        ks = [rng.choice(ATTRS)]
    elif shape < 0.60:
        ks = rng.sample(ATTRS, rng.randint(2, 4))
    elif shape < 0.85:
        ks = [k for k in ATTRS if rng.random() < 0.6]
    else:
        ks = list(ATTRS)
    return {k: value(cfg, k, allow) for k in ATTRS if k in ks}


def heavy_pen(cfg, allow):
    """all attributes, colours chosen to need as many parameters as possible"""
    p = {k: value(cfg, k, allow) for k in ATTRS}
    for k in ("fg", "bg"):
        idx = rng.choice([16, 100, 200, 255, cfg["colors"] - 1])
        p[k] = (min(idx, 255), (rgb_byte(), rgb_byte(), rgb_byte()) if rng.random() < 0.8 else None)
    p["u"] = rng.choice([1, 2, 3]) if (cfg["colon"] or "under" in allow) else rng.choice([1, 2])
    return p


def all_differ(cfg, l, allow):
    """every attribute present and different from the logical pen, both colours with RGB: the most parameters a request can need"""
    p = {}
    for k in ATTRS:
        if k in ("fg", "bg"):
            p[k] = (rng.choice([16, 200, 255]), (rgb_byte(), rgb_byte(), rgb_byte()))
            while l.get(k) == p[k]: p[k] = (rng.randrange(256), (rgb_byte(), rgb_byte(), rgb_byte()))
        elif k in BOOLS: p[k] = 1 - l.get(k, 0)
        elif k == "u": p[k] = rng.choice([v for v in ((1, 2, 3) if (cfg["colon"] or "under" in allow) else (1, 2)) if v != l.get(k, 0)])
        elif k == "af": p[k] = rng.choice([v for v in range(1, 10) if v != l.get(k, 0)])
        else: p[k] = rng.choice([v for v in (2, 3) if v != l.get(k, 0)])
    if rng.random() < 0.5:
        del p[rng.choice(BOOLS)]
    return p


def default_pen(cfg, l):
    """a pen whose application leaves every cached attribute default (empty-SGR shortcut)"""
    ks = [k for k in ATTRS if rng.random() < 0.7] if rng.random() < 0.5 else list(l.keys())
    p = {k: DEFAULT[k] for k in ATTRS if k in ks}
    if "af" in p and rng.random() < 0.3:
        p["af"] = -1
    return p


def next_op(cfg, l, prev, allow):
    """one request given the logical pen `l` and the previous argument"""
    r = rng.random()
    is_set = rng.random() < 0.5
    if r < 0.34 or prev is None:
        p, kind = random_pen(cfg, allow), "random"
    elif r < 0.46:
        p, kind = dict(prev), "repeat"
    elif r < 0.58 and l:
        ks = [k for k in l if rng.random() < 0.5]
        p, kind, is_set = {k: l[k] for k in ATTRS if k in ks}, "subset-of-logical", False
    elif r < 0.74:
        p = dict(prev)
        k = rng.choice(ATTRS)
        if k in p and rng.random() < 0.3:
            del p[k]
        else:
            p[k] = value(cfg, k, allow)
        kind = "mutate-one"
    elif r < 0.78 and l:
        # exactly one attribute of the logical pen changes: by chpen {attr} or by setpen of the whole logical pen with it replaced
        k = rng.choice(ATTRS)
        v = value(cfg, k, allow)
        if is_set:
            p = overlay(total(l), {k: v})
        else:
            p = {k: v}
        kind = "single-effective-change"
    elif r < 0.86:
        p, kind = default_pen(cfg, l), "all-default"
    elif r < 0.90:
        p, kind = heavy_pen(cfg, allow), "heavy"
    elif r < 0.93:
        p, kind = all_differ(cfg, l, allow), "heavy-all-differ"
    else:
        # exactly the logical pen again, by set: a total no-op
        p, kind, is_set = dict(l), "logical-again", True
    return is_set, p, kind


def trim(cfg, l, p, is_set, allow):
    """remove what would trigger a known finding that this history is not about; None = give up"""
    for _ in range(12):
        t = triggers(cfg, l, p, is_set) - allow
        if not t:
            return p
        p = dict(p)
        if "under" in t:
            p["u"] = rng.choice([0, 1, 2])
        if "small" in t:
            p["sizepos"] = rng.choice([0, 2, 3])
    return None


lines = []
n_hist = collections.Counter()
P_SUSPEND = 0.06    # probability that the next step of a history is pause + resume
P_PRINT = 0.08      # probability that the next step is text drawn between pen requests (tickit_term_printf: it shares the
                    # terminal's scratch buffer with the xterm driver's SGR string)
WORDCH = "abcdefghijklmnopqrstuvwxyzABCDEFGHIJKLMNOPQRSTUVWXYZ0123456789"


def word():
    n = rng.choice([1, 2, 3, 5, 8, 13, 21, 34, 55, 60])
    return "".join(rng.choice(WORDCH) for _ in range(n))


P_FLUSH = 0.3       # with an output buffer: probability that a request is followed by tickit_term_flush
GROUP = 1           # logical histories per protocol history (`renew` = fresh terminal inside a history; the framework now batches forks itself)
group_fill = [0]


def new_line(cfg, grouped=False, init=None):
    return _new_line(cfg, grouped) + ("" if init is None else " " + pen_text(init))


def _new_line(cfg, grouped=False):
    word = "new"
    if grouped:
        if group_fill[0] % GROUP != 0:
            word = "renew"
        group_fill[0] += 1
    else:
        group_fill[0] = 0
    if cfg["kind"] == "x":
        return "%s x %d %d %s" % (word, cfg["rgb8"], cfg["colon"], cfg["how"])
    return "%s g %d %d %d" % (word, cfg["colors"], cfg["rgb8"], cfg["colon"])


def random_cfg(kind=None):
    kind = kind or rng.choice(["x", "x", "g", "g", "g"])
    if kind == "x":
        c = {"kind": "x", "colors": 256, "rgb8": rng.randint(0, 1), "colon": rng.randint(0, 1), "how": rng.choice(["reply", "reply", "ctl"])}
        if rng.random() < 0.3:
            # the library collects its output in a buffer (smaller or larger than an SGR string) and delivers it when full / on flush
            c["outbuf"] = rng.choice([1, 4, 8, 12, 16, 16, 24, 32, 64, 256])
        return c
    return {"kind": "g", "colors": rng.choice([8, 16, 88, 256]), "rgb8": rng.randint(0, 1), "colon": rng.randint(0, 1)}


def nondefault_pen(cfg, avoid=None):
    """a pen (free of known-finding triggers) with at least two attributes at non-default values, `avoid` left out"""
    for _ in range(50):
        p = trim(cfg, {}, random_pen(cfg, set()), True, set())
        if p is None:
            continue
        if avoid:
            p.pop(avoid, None)
        nd = [k for k in p if p[k] != DEFAULT[k] and not (k in ("fg", "bg") and p[k][0] < 0) and not (k == "af" and p[k] in (-1, 0))]
        if len(nd) >= 2:
            return p
    return {"b": 1, "fg": (2, None)}


def history(cfg, nops, allow, want=None, init=None, script=None):
    """emit one history; `allow` = the known-finding triggers this history may contain; `init` = pen in force at the start
    (part of the head line); `script` = requests to issue first (list of (is_set, pen, kind))"""
    out = []
    l, prev, seen = {}, None, set()
    if init is not None:
        l, prev = total(init), init
        stats["start:pen-in-force"] += 1
    script = list(script or [])
    after_suspend = 0
    buffered = cfg.get("outbuf")
    if buffered:
        out.append("outbuf %d" % buffered)
        stats["outbuf:%d" % buffered] += 1
    for it in range(nops + len(script)):
        if script:
            is_set, p, kind = script.pop(0)
            if callable(p):
                p = p(l)
        elif not allow and not buffered and rng.random() < P_SUSPEND:
            is_set, p, kind = None, None, "suspend"
        elif not allow and rng.random() < P_PRINT:
            w = word()
            stats["op:print"] += 1
            stats["print:len<=8" if len(w) <= 8 else "print:len>8"] += 1
            out.append("print " + w)
            if buffered and rng.random() < P_FLUSH: out.append("flush"); stats["op:flush"] += 1
            continue
        elif after_suspend and l and rng.random() < 0.7:
            # what follows a suspension: mostly requests that do not change the pen (they are skipped as 'already set', so
            # only the bytes of resume can have put the attributes back) or change exactly one attribute
            r = rng.random()
            if r < 0.4:
                ks = [k for k in l if rng.random() < 0.5]
                is_set, p, kind = False, {k: l[k] for k in ATTRS if k in ks}, "subset-of-logical"
            elif r < 0.6:
                is_set, p, kind = True, dict(l), "logical-again"
            else:
                k = rng.choice(ATTRS)
                v = value(cfg, k, allow)
                is_set = rng.random() < 0.5
                p, kind = (overlay(total(l), {k: v}) if is_set else {k: v}), "single-effective-change"
        else:
            is_set, p, kind = next_op(cfg, l, prev, allow)
        if kind == "suspend":
            # tickit_term_pause + tickit_term_resume: not a pen request, the logical pen stays
            nd = [k for k in l if l[k] != DEFAULT[k] and not (k in ("fg", "bg") and l[k][0] < 0) and not (k == "af" and l[k] in (-1, 0))]
            stats["op:suspend"] += 1
            stats["suspend:" + ("pen-default" if not nd else "pen-nondefault")] += 1
            if after_suspend: stats["suspend:twice-in-a-row"] += 1
            out.append("suspend")
            after_suspend = 3
            continue
        if after_suspend:
            stats["after-suspend:" + kind] += 1
            after_suspend -= 1
        p = trim(cfg, l, p, is_set, allow)
        if p is None:
            continue
        t = triggers(cfg, l, p, is_set)
        seen |= t
        l2 = total(p) if is_set else overlay(l, p)
        stats["op:" + ("setpen" if is_set else "chpen")] += 1
        stats["shape:" + kind] += 1
        stats["attrs:%d" % len(p)] += 1
        stats["noop" if l2 == l else "changes"] += 1
        stats["params:%d" % delta_params(cfg, l, p, is_set)] += 1
        if all(l2.get(k, DEFAULT[k]) == DEFAULT[k] or (k == "af" and l2.get(k) in (-1, 0)) for k in ATTRS) and l2 != l:
            stats["to-all-default"] += 1
        for k in ("fg", "bg"):
            if k in p:
                idx, rgb = p[k]
                stats["colour:" + ("default" if idx < 0 else "beyond-palette" if idx >= cfg["colors"] else "low8" if idx < 8 else "high8" if idx < 16 else "indexed")] += 1
                if rgb is not None: stats["colour:with-rgb"] += 1
        for t1 in t: stats["trigger:" + t1] += 1
        out.append(("setpen " if is_set else "chpen ") + pen_text(p))
        l, prev = l2, p
        if buffered and rng.random() < P_FLUSH: out.append("flush"); stats["op:flush"] += 1
    if buffered and out[-1] != "flush":
        out.append("flush"); stats["op:flush"] += 1
    if want and want not in seen:
        return False
    lines.append(new_line(cfg, grouped=not allow, init=init))
    lines.extend(out)
    n_hist[cfg["kind"] + (":" + "+".join(sorted(allow)) if allow else "")] += 1
    stats["cfg:%s colors=%d rgb8=%d colon=%d" % (cfg["kind"], cfg["colors"], cfg["rgb8"], cfg["colon"])] += 1
    return True


# ---------------------------------------------------------------------------------------------- exhaustive
def basis(cfg):
    c = cfg["colors"]
    b = [
        {},                                                           # empty
        dict(DEFAULT),                                                # everything, all default
        {"b": 1}, {"b": 0},
        {"u": 1},
        {"u": 3} if cfg["colon"] else {"u": 2},
        {"fg": (3, None)}, {"fg": (12, None)},
        {"fg": (200, None)}, {"fg": (200, (10, 0, 255))},
        {"bg": (100, (1, 2, 3)), "rv": 1},
        {"fg": (-1, None), "bg": (-1, None)},
        {"af": 3, "sizepos": 2},
        {"i": 1, "strike": 1, "blink": 1, "af": -1, "sizepos": 3},
        {"fg": (c - 1 if c <= 256 else 255, None), "bg": (min(c, 255), None), "b": 1, "u": 1, "i": 1, "rv": 1, "strike": 1, "af": 9, "blink": 1, "sizepos": 2},
    ]
    return b


def exhaustive():
    cfgs = [{"kind": "x", "colors": 256, "rgb8": r, "colon": c, "how": "reply"} for r in (0, 1) for c in (0, 1)] + \
           [{"kind": "g", "colors": n, "rgb8": n == 256, "colon": n >= 88} for n in (8, 16, 88, 256)]
    skipped = 0
    for cfg in cfgs:
        ops = [(s, p) for p in basis(cfg) for s in (True, False)] + [(None, None)]
        for n in (1, 2, 3):
            for h in itertools.product(ops, repeat=n):
                l, ok, out = {}, True, []
                for (s, p) in h:
                    if s is None:
                        out.append("suspend"); continue
                    if triggers(cfg, l, p, s):
                        ok = False; break
                    out.append(("setpen " if s else "chpen ") + pen_text(p))
                    l = total(p) if s else overlay(l, p)
                if not ok:
                    skipped += 1; continue
                lines.append(new_line(cfg, grouped=True))
                lines.extend(out)
                n_hist["exh:" + cfg["kind"]] += 1
    return {"configurations": len(cfgs), "basis_pens": len(basis(cfgs[0])), "max_requests": 3, "skipped_known_trigger": skipped}


if a.tier == "exhaustive":
    info = exhaustive()
    open(a.out, "w").write("\n".join(lines) + "\n")
    print(json.dumps({"ops": len(lines), "histories": sum(n_hist.values()), "by_config": dict(n_hist), **info,
                      "exhaustive_bound": "every history of <= 3 steps (setpen|chpen over a 15-pen basis, or suspend = pause + resume), 4 capability combinations of the xterm driver and 4 colour counts of the harness driver; histories that run into a known finding are left to the dedicated probes"}))
    raise SystemExit(0)

N = 2200 if a.tier == "quick" else 22000
# a table check first
lines += ["new t", "palette"]
# deterministic prefix: every configuration x a fixed script that walks the boundaries
for r in (0, 1):
    for c in (0, 1):
        for how in ("reply", "ctl"):
            history({"kind": "x", "colors": 256, "rgb8": r, "colon": c, "how": how}, 14, set())
for n in (8, 16, 88, 256):
    history({"kind": "g", "colors": n, "rgb8": rng.randint(0, 1), "colon": rng.randint(0, 1)}, 14, set())
# the program is stopped and continued while a non-default pen is in force, then asks for what it already has
SUSP = [(None, None, "suspend"),
        (False, lambda l: {k: l[k] for k in ATTRS if k in l and rng.random() < 0.5}, "subset-of-logical"),
        (True, lambda l: dict(l), "logical-again"),
        (None, None, "suspend")]
for cfg in [{"kind": "x", "colors": 256, "rgb8": r, "colon": c, "how": how} for r in (0, 1) for c in (0, 1) for how in ("reply", "ctl")] + \
           [{"kind": "g", "colors": n, "rgb8": rng.randint(0, 1), "colon": rng.randint(0, 1)} for n in (8, 16, 88, 256)]:
    history(cfg, 3, set(), init=nondefault_pen(cfg), script=SUSP)
    history(cfg, 2, set(), script=[(rng.random() < 0.5, heavy_pen(cfg, set()), "heavy")] + SUSP[:2])
for _ in range(N):
    cfg = random_cfg()
    script = None
    if cfg.get("outbuf") and rng.random() < 0.5:
        # a short request that stays pending in the output buffer, then one whose SGR string is long and takes it back
        k = rng.choice(BOOLS)
        script = [(False, {k: 1}, "buffered-short"), (True, nondefault_pen(cfg, avoid=k), "buffered-long")]
    history(cfg, rng.choice([3, 6, 10, 16, 24]), set(), init=nondefault_pen(cfg) if rng.random() < 0.25 else None, script=script)


# the sweep: one attribute changes, to every class of value, while a non-default pen is in force
def value_classes(cfg, k):
    c = cfg["colors"]
    if k in ("fg", "bg"):
        return [(-1, None), (3, None), (12, None), (min(c, 255), None), (200, (10, 0, 255)), (17, (0, 0, 0))]
    if k in BOOLS:
        return [0, 1]
    if k == "u":
        return [0, 1, 2, 3]
    if k == "af":
        return [-1, 0, 1, 9, 12]
    return [0, 1, 2, 3]          # sizepos: normal, small, superscript, subscript


def sweep(cfgs, late):
    """`late` collects the members that run into a known finding (emitted at the end of the file)"""
    for cfg in cfgs:
        for k in ATTRS:
            for v in value_classes(cfg, k):
                for form in (False, True):
                    t = triggers(cfg, {}, {k: v}, False)
                    init = nondefault_pen(cfg, avoid=k if rng.random() < 0.5 else None)
                    if form:
                        mk = lambda l, k=k, v=v: overlay(total(l), {k: v})
                    else:
                        mk = lambda l, k=k, v=v: {k: v}
                    item = (cfg, init, [(form, mk, "sweep-one-attribute")], t)
                    if t:
                        late.append(item)
                    else:
                        history(cfg, rng.choice([0, 1, 3]), set(), init=init, script=item[2])


late = []
sweep_cfgs = [{"kind": "x", "colors": 256, "rgb8": rng.randint(0, 1), "colon": c, "how": rng.choice(["reply", "ctl"])} for c in (0, 1)] + \
             [{"kind": "g", "colors": rng.choice([8, 16, 88, 256]), "rgb8": rng.randint(0, 1), "colon": rng.randint(0, 1)}]
if a.tier != "quick":
    sweep_cfgs = sweep_cfgs * 4
sweep(sweep_cfgs, late)
# the known findings, deliberately, at the end (a handful of histories each)
K = 3 if a.tier == "quick" else 12
group_fill[0] = 0
for _ in range(K):
    for want, mk in (("under", lambda: dict(random_cfg(), colon=0)),
                     ("small", lambda: random_cfg())):
        for _try in range(50):
            if history(mk(), rng.choice([4, 8, 12]), {want}, want=want):
                break

# ... and the members of the sweep that run into one (quick: at most 8 of them, the real driver first)
late.sort(key=lambda it: it[0]["kind"] != "x")
for (cfg, init, script, t) in late[: (8 if a.tier == "quick" else 40)]:
    history(cfg, rng.choice([0, 1, 2]), set(t), init=init, script=script)

open(a.out, "w").write("\n".join(lines) + "\n")
print(json.dumps({"ops": len(lines), "histories": sum(n_hist.values()), "by_class": dict(n_hist),
                  "distribution": {k: stats[k] for k in sorted(stats)}}))
