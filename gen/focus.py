#!/usr/bin/env python3
"""Operation generator for engine `focus` (C15).  All randomness from --seed.

quick/thorough: random histories over trees of <= 7 windows (nested, overlapping, partly or wholly outside their
parent, hidden, zero-sized now and then) on small terminals: take-focus, cursor position / visibility / shape / blink,
child-notification switches, show / hide, the four restacking requests, geometry changes (each followed by the exposes
of the old and the new area in the parent, C01's proviso), close, unref (leaf first), expose, flush.  Cursor positions
are drawn mostly inside the window, around its edges, and under overlapping siblings and children.
exhaustive: every sequence of <= 4 operations from an 18-letter alphabet (focus / hide / show / restack / cursor / close /
flush) on a fixed two-level tree with an overlapping sibling, each closed by a flush.

Histories come in three blocks, in this order.  (The blocks were introduced while the library still had the four C15
defects, so that the check's per-file budget of examined failures was not used up by those known findings; now that they
are fixed the unrestricted block is the largest, and the disciplined ones remain as a different input distribution.)
  discipline 2 (15 %): focus only moves inside an antichain of windows (never between a window and its ancestor), the
      root is never hidden, no window asking for child notifications has focus candidates in two branches, and every
      window lies inside its parent and is not empty  -> none of the four known findings can trigger; any alarm is new;
  discipline 1 (15 %): the same focus discipline, geometry unrestricted (windows outside their parents, empty windows);
  discipline 0 (70 %): no restriction at all.
The first 24 histories and every eighth after them are *stacking* histories: two to four overlapping siblings (under the
root or inside a pane) that all cover one cell, the focus on one of them or on a child of one with its cursor on that
cell, then rounds of one to four restacking requests — the same window twice, neighbours, front / back jumps, i.e.
requests whose order matters — each round closed by a flush.  (They come first so that a break in how queued requests
are applied is met where the cursor clause can judge it, before the blocks below.)  The random histories also follow a
restacking request with a burst of further requests among the same siblings 40 % of the time.
Every fourth history is a *scenario*: a focus chain three to five windows deep with notification switches at every
level, side branches, distinct cursor shapes, and the focus moved back and forth across branches with a flush after
most moves, restacking of focused windows, hide/show and shape changes in between.

Two terminal configurations: the harness's own recording driver (`new`, every call the window layer makes is compared)
and, for 40 % of the histories, the library's mock terminal (`newmock`; the cursor is what the mock reports through
tickit_term_getctl_int / tickit_mockterm_get_position).  Windows get an explicit blink mode and a non-default shape
now and then right after creation (the window layer sends CURSORBLINK only for those), so that shape, blink and
visibility are all sent on a restore.  One history in seven also resizes the terminal (`termsize`: shrinking through
windows and the cursor cell, growing, same size); the root window follows through its resize handler.

A window that took the focus last is, now and then, repositioned *without* the proviso's exposes (`repos` alone, 35 % of
its geometry changes; mostly to where its cursor cell ends up under a sibling, outside its parent, or in the open):
tickit_window_reposition requests the cursor restore itself for a focused window, so the property must hold there
with nothing else pending for the flush.  (Any other window's geometry change keeps the exposes: C01's proviso.)

The generator keeps within the engine's scope guards (see harness/focus.c): no operation on closed windows or below
them, unref only of windows without live children.
"""
import argparse, random, json, itertools

ap = argparse.ArgumentParser()
ap.add_argument("--seed", type=int, default=1); ap.add_argument("--tier", default="quick")
ap.add_argument("--out", required=True); ap.add_argument("--prop", default="C15")
a = ap.parse_args()
rng = random.Random(a.seed)
lines = []
mix = {}
feat = {}

def emit(s):
    lines.append(s); k = s.split()[0]; mix[k] = mix.get(k, 0) + 1

def note(k):
    feat[k] = feat.get(k, 0) + 1


class Hist:
    def __init__(self, L, C, disc=0, mock=None, resizing=None):
        self.L, self.C = L, C
        self.disc = disc
        self.mock = (rng.random() < 0.4) if mock is None else mock
        self.resizing = (disc < 2 and rng.random() < 0.15) if resizing is None else resizing
        note("term_mock" if self.mock else "term_recording")
        if self.resizing: note("resizing_history")
        self.w = {0: dict(parent=None, rect=(0, 0, L, C), closed=False, freed=False, vis=True)}
        self.pending = set()
        self.fset = set()      # discipline >= 1: the windows that may take the focus (an antichain)
        self.notify = set()    # windows that asked for child notifications
        self.holder = None     # the window that took the focus last (is_focused is set on it whatever its ancestors are)
        emit("%s %d %d" % ("newmock" if self.mock else "new", L, C))
        if disc and rng.random() < 0.08: self.fset.add(0)

    def term_resize(self):
        """the terminal changes size: a little, through the windows, down to one cell, back up, or not at all"""
        x = rng.random()
        if x < 0.35:
            L, C = max(1, self.L + rng.randint(-2, 1)), max(1, self.C + rng.randint(-3, 1)); note("termsize_nudge")
        elif x < 0.6:
            L, C = rng.randint(1, max(1, self.L)), rng.randint(1, max(1, self.C)); note("termsize_shrink")
        elif x < 0.7:
            L, C = rng.choice([(1, 1), (1, self.C), (self.L, 1), (2, 2)]); note("termsize_tiny")
        elif x < 0.92:
            L, C = self.L + rng.randint(0, 4), self.C + rng.randint(0, 6); note("termsize_grow")
        else:
            L, C = self.L, self.C; note("termsize_same")
        emit("termsize %d %d" % (L, C))
        self.L, self.C = L, C
        self.w[0]["rect"] = (0, 0, L, C)

    def ancestors(self, i):
        out = []; i = self.w[i]["parent"]
        while i is not None:
            out.append(i); i = self.w[i]["parent"]
        return out

    def member_branches(self, p, extra=None):
        """children of p whose subtree holds a focus candidate"""
        ms = set(self.fset) | ({extra} if extra is not None else set())
        br = set()
        for m in ms:
            if m == p: continue
            chain = [m] + self.ancestors(m)
            if p in chain: br.add(chain[chain.index(p) - 1])
        return br

    def may_join(self, i):
        anc = self.ancestors(i)
        if any(a in self.fset for a in anc): return False
        if any(i in self.ancestors(m) for m in self.fset): return False
        for a in anc:
            if a in self.notify and len(self.member_branches(a, extra=i)) > 1: return False
        return True

    def focus_target(self, default):
        if not self.disc: return default
        c = [m for m in self.fset if self.live(m) and not self.detached(m)]
        return rng.choice(c) if c else None

    def live(self, i): return i in self.w and not self.w[i]["freed"]

    def detached(self, i):
        while i is not None:
            if self.w[i]["closed"]: return True
            i = self.w[i]["parent"]
        return False

    def usable(self): return [i for i in self.w if self.live(i) and not self.detached(i)]

    def kids(self, i): return [j for j in self.w if self.live(j) and self.w[j]["parent"] == i]

    def rect_in(self, p):
        """a rectangle for a child of p: mostly inside, sometimes sticking out, sometimes wholly outside, rarely empty"""
        _, _, n, c = self.w[p]["rect"]
        n, c = max(n, 1), max(c, 1)
        x = rng.random()
        if x < 0.62 or self.disc >= 2:
            t = rng.randint(0, max(0, n - 1)); l = rng.randint(0, max(0, c - 1))
            h = rng.randint(1, max(1, n - t)); wd = rng.randint(1, max(1, c - l)); note("rect_inside")
        elif x < 0.84:
            t = rng.randint(-2, n); l = rng.randint(-3, c); h = rng.randint(1, n + 2); wd = rng.randint(1, c + 3); note("rect_sticking_out")
        elif x < 0.94:
            t = rng.choice([n, n + 2, -5]); l = rng.choice([c, c + 1, -7]); h = rng.randint(1, 3); wd = rng.randint(1, 4); note("rect_outside")
        else:
            t = rng.randint(0, n - 1); l = rng.randint(0, c - 1); h = rng.choice([0, 1]); wd = 0 if h else rng.choice([0, 2]); note("rect_empty")
        return (t, l, h, wd)

    def new_win(self):
        us = self.usable()
        if len(self.w) >= 8 or not us: return
        p = rng.choice(us if rng.random() < 0.5 else [u for u in us if u == 0 or rng.random() < 0.6] or us)
        r = self.rect_in(p)
        flags = 0
        if rng.random() < 0.18: flags |= 1
        if rng.random() < 0.2: flags |= 2
        if rng.random() < 0.1: flags |= 4
        if rng.random() < 0.05: flags |= 8
        i = len(self.w)
        emit("win %d %d %d %d %d %d %d" % ((i, p) + r + (flags,)))
        realp = 0 if flags & 4 else p
        if flags & 4:
            # rectangle re-expressed relative to the root by the library
            t, l = r[0], r[1]
            q = p
            while q is not None and self.w[q]["parent"] is not None:
                t += self.w[q]["rect"][0]; l += self.w[q]["rect"][1]; q = self.w[q]["parent"]
            r = (t, l, r[2], r[3])
        self.w[i] = dict(parent=realp, rect=r, closed=False, freed=False, vis=not (flags & 1))
        if self.disc and rng.random() < 0.7 and self.may_join(i): self.fset.add(i)
        if rng.random() < 0.3:
            emit("curblink %d %d" % (i, rng.choice([0, 1, 1]))); note("explicit_blink")
            if rng.random() < 0.8: emit("curshape %d %d" % (i, rng.choice([2, 3])))

    def cursor_cell(self, i):
        _, _, n, c = self.w[i]["rect"]
        x = rng.random()
        ks = self.kids(i)
        sibs = [j for j in self.kids(self.w[i]["parent"]) if j != i] if self.w[i]["parent"] is not None else []
        if x < 0.45 or (not ks and not sibs and x < 0.7):
            note("cur_inside"); return (rng.randint(0, max(0, n - 1)), rng.randint(0, max(0, c - 1)))
        if x < 0.62 and ks:
            t, l, h, wd = self.w[rng.choice(ks)]["rect"]; note("cur_under_child")
            return (t + rng.randint(0, max(0, h - 1)), l + rng.randint(0, max(0, wd - 1)))
        if x < 0.8 and sibs:
            t, l, h, wd = self.w[rng.choice(sibs)]["rect"]; mt, ml, _, _ = self.w[i]["rect"]; note("cur_under_sibling")
            return (t - mt + rng.randint(0, max(0, h - 1)), l - ml + rng.randint(0, max(0, wd - 1)))
        note("cur_edge")
        return (rng.choice([-1, 0, n - 1, n, n + 3]), rng.choice([-1, 0, c - 1, c, c + 2]))

    def bare_reposition(self, i):
        """the focus holder moves, nothing else is pending: under a sibling, outside the parent, or into the open"""
        p = self.w[i]["parent"]
        old = self.w[i]["rect"]
        _, _, pn, pc = self.w[p]["rect"]
        sibs = [j for j in self.kids(p) if j != i]
        x = rng.random()
        if x < 0.45 and sibs:
            t, l, h, wd = self.w[rng.choice(sibs)]["rect"]; note("bare_repos_under_sibling")
            new = (t + rng.randint(-1, max(0, h - 1)), l + rng.randint(-1, max(0, wd - 1)))
        elif x < 0.7:
            note("bare_repos_outside_parent")
            new = (rng.choice([pn, pn + 1, -old[2], -old[2] - 2, old[0]]), rng.choice([pc, pc + 2, -old[3], -old[3] - 1, old[1]]))
        else:
            note("bare_repos_open")
            new = (rng.randint(0, max(0, pn - 1)), rng.randint(0, max(0, pc - 1)))
        emit("repos %d %d %d" % (i, new[0], new[1]))
        self.w[i]["rect"] = (new[0], new[1], old[2], old[3])
        if rng.random() < 0.8: emit("flush"); self.pending.clear()

    def geom_change(self, i):
        p = self.w[i]["parent"]
        old = self.w[i]["rect"]
        k = rng.random()
        if i == self.holder and self.disc < 2 and rng.random() < 0.35:
            self.bare_reposition(i); return
        if self.disc >= 2:
            # stay inside the parent; a window with children only moves
            _, _, pn, pc = self.w[p]["rect"]
            if self.kids(i) or k < 0.5:
                if old[2] > pn or old[3] > pc: return
                new = (rng.randint(0, pn - old[2]), rng.randint(0, pc - old[3]), old[2], old[3])
                emit("repos %d %d %d" % (i, new[0], new[1]))
            else:
                new = self.rect_in(p)
                emit("geom %d %d %d %d %d" % ((i,) + new))
        elif k < 0.4:
            new = (old[0] + rng.randint(-2, 2), old[1] + rng.randint(-3, 3), old[2], old[3])
            emit("repos %d %d %d" % (i, new[0], new[1]))
        elif k < 0.6:
            new = (old[0], old[1], max(0, old[2] + rng.randint(-2, 2)), max(0, old[3] + rng.randint(-2, 3)))
            emit("resize %d %d %d" % (i, new[2], new[3]))
        else:
            new = self.rect_in(p)
            emit("geom %d %d %d %d %d" % ((i,) + new))
        self.w[i]["rect"] = new
        # C01's proviso: the application exposes the old and the new area
        emit("exposer %d %d %d %d %d" % ((p,) + old))
        emit("exposer %d %d %d %d %d" % ((p,) + new))

    def step(self):
        us = self.usable()
        nonroot = [i for i in us if i != 0]
        x = rng.random()
        if self.resizing and rng.random() < 0.09:
            self.term_resize()
            if rng.random() < 0.5: emit("flush"); self.pending.clear()
            return
        if x < 0.06 or len(self.w) == 1:
            self.new_win(); return
        if not nonroot:
            self.new_win(); return
        i = rng.choice(nonroot)
        any_ = rng.choice(us) if rng.random() < 0.12 else i
        if x < 0.26:
            tgt = self.focus_target(any_)
            if tgt is not None: emit("focus %d" % tgt); self.holder = tgt
        elif x < 0.36:
            emit("curpos %d %d %d" % ((any_,) + self.cursor_cell(any_)))
        elif x < 0.41:
            emit("curvis %d %d" % (any_, rng.choice([0, 0, 1, 1, 1, 2, -1, 3])))
        elif x < 0.45:
            emit("curshape %d %d" % (any_, rng.choice([1, 2, 3, 3, 0, 7])))
        elif x < 0.47:
            emit("curblink %d %d" % (any_, rng.choice([0, 1, 5])))
        elif x < 0.51:
            v = rng.choice([1, 1, 1, 0, 2])
            if self.disc and v % 2 and len(self.member_branches(any_)) > 1: return
            emit("notify %d %d" % (any_, v))
            if v % 2: self.notify.add(any_)
            else: self.notify.discard(any_)
        elif x < 0.59:
            tgt = any_ if (any_ != 0 or (rng.random() < 0.15 and not self.disc)) else i
            if tgt == 0: note("hide_root")
            emit("hide %d" % tgt); self.w[tgt]["vis"] = False
        elif x < 0.66:
            hidden = [j for j in us if not self.w[j]["vis"]]
            tgt = rng.choice(hidden) if hidden and rng.random() < 0.8 else any_
            emit("show %d" % tgt); self.w[tgt]["vis"] = True
        elif x < 0.75:
            emit("%s %d" % (rng.choice(["raise", "raisefront", "lower", "lowerback"]), i)); self.pending.add(i)
            if rng.random() < 0.4:
                # a burst: more requests among the same siblings before the next flush (their order matters)
                fam = [j for j in self.kids(self.w[i]["parent"]) if not self.w[j]["closed"]] or [i]
                for _ in range(rng.randint(1, 3)):
                    j = i if rng.random() < 0.4 else rng.choice(fam)
                    emit("%s %d" % (rng.choice(["raise", "raisefront", "lower", "lowerback"]), j)); self.pending.add(j)
                note("restack_burst")
                if rng.random() < 0.6: emit("flush"); self.pending.clear()
        elif x < 0.83:
            h = self.holder
            if h is not None and h != 0 and self.live(h) and not self.detached(h) and rng.random() < 0.4: i = h
            self.geom_change(i)
        elif x < 0.86:
            if self.kids(i): note("close_with_children")
            if i in self.pending: note("close_with_restack_queued")
            emit("close %d" % i); self.w[i]["closed"] = True
        elif x < 0.88:
            leaves = [j for j in self.w if j != 0 and self.live(j) and not self.kids(j)]
            if leaves:
                j = rng.choice(leaves)
                emit("unref %d" % j); self.w[j]["freed"] = True; self.pending.discard(j)
        elif x < 0.90:
            if rng.random() < 0.5: emit("expose %d" % any_)
            else: emit("exposer %d %d %d %d %d" % ((any_,) + self.rect_in(any_)))
        else:
            emit("flush"); self.pending.clear()


def scenario_history():
    """Deep focus chains with notification switches at every level and distinct cursor shapes; the focus is moved back
    and forth across branches, with a flush after most moves; restacking, shape changes and show/hide in between."""
    L, C = rng.choice([(10, 20), (12, 30), (12, 30)])
    note("scenario")
    h = Hist(L, C, 0)
    # a chain of nested windows 3..5 deep, and one or two side branches
    depth = rng.randint(3, 5)
    chain = [0]
    t, l, n, c = 0, 0, L, C
    for d in range(depth):
        nn = max(1, n - rng.randint(0, 2)); nc = max(1, c - rng.randint(0, 3))
        r = (rng.randint(0, n - nn), rng.randint(0, c - nc), nn, nc)
        i = len(h.w)
        emit("win %d %d %d %d %d %d 0" % ((i, chain[-1]) + r))
        h.w[i] = dict(parent=chain[-1], rect=r, closed=False, freed=False, vis=True)
        chain.append(i); n, c = nn, nc
    sides = []
    for _ in range(rng.randint(1, 2)):
        p = rng.choice(chain[:-1])
        pn, pc = h.w[p]["rect"][2], h.w[p]["rect"][3]
        r = (rng.randint(0, max(0, pn - 1)), rng.randint(0, max(0, pc - 1)), rng.randint(1, max(1, pn // 2)), rng.randint(1, max(1, pc // 2)))
        i = len(h.w)
        emit("win %d %d %d %d %d %d %d" % ((i, p) + r + (rng.choice([0, 0, 2]),)))
        h.w[i] = dict(parent=p, rect=r, closed=False, freed=False, vis=True)
        sides.append(i)
        if rng.random() < 0.5:
            j = len(h.w)
            emit("win %d %d 0 0 1 1 0" % (j, i))
            h.w[j] = dict(parent=i, rect=(0, 0, 1, 1), closed=False, freed=False, vis=True)
            sides.append(j)
    allw = [i for i in h.w]
    for i in allw:
        if rng.random() < 0.6: emit("notify %d 1" % i)
        if i and rng.random() < 0.8: emit("curshape %d %d" % (i, rng.choice([1, 2, 3])))
        if i and rng.random() < 0.45: emit("curblink %d %d" % (i, rng.choice([0, 1]))); note("explicit_blink")
        if i and rng.random() < 0.7:
            n_, c_ = h.w[i]["rect"][2], h.w[i]["rect"][3]
            emit("curpos %d %d %d" % (i, rng.randint(0, n_ - 1), rng.randint(0, c_ - 1)))
    emit("flush")
    targets = chain[1:] + sides
    for _ in range(rng.randint(6, 16)):
        x = rng.random()
        if h.resizing and rng.random() < 0.12:
            h.term_resize()
            if rng.random() < 0.6: emit("flush")
        elif x < 0.5:
            h.holder = rng.choice(targets if rng.random() < 0.9 else allw)
            emit("focus %d" % h.holder)
            if rng.random() < 0.75: emit("flush")
        elif x < 0.55:
            if h.holder: h.bare_reposition(h.holder)
        elif x < 0.67:
            emit("%s %d" % (rng.choice(["raise", "raisefront", "lower", "lowerback"]), rng.choice(targets)))
            if rng.random() < 0.7: emit("flush")
        elif x < 0.75:
            emit("curshape %d %d" % (rng.choice(targets), rng.choice([1, 2, 3])))
        elif x < 0.83:
            i = rng.choice(targets); emit("hide %d" % i)
            if rng.random() < 0.5: emit("flush")
            emit("show %d" % i)
        elif x < 0.9:
            emit("notify %d %d" % (rng.choice(allw), rng.choice([0, 1])))
        else:
            emit("flush")
    emit("flush")


RESTACK = ["raise", "raisefront", "lower", "lowerback"]

def stacking_history(strict=False):
    """Two to four overlapping siblings — under the root or inside a pane — all covering one cell; one of them, or a child
    of one, holds the focus with its cursor on that cell.  Then rounds of one to four restacking requests (the same
    window twice, a window and its neighbour, front / back jumps: requests whose order matters) closed by a flush, with a
    cursor move, hide / show or a new sibling in between now and then."""
    L, C = rng.choice([(8, 16), (10, 20), (12, 30)])
    note("stacking")
    h = Hist(L, C, 0, resizing=False)
    par, pt, pl, pn, pc = 0, 0, 0, L, C
    if rng.random() < 0.3:
        pn, pc = rng.randint(4, L), rng.randint(6, C)
        pt, pl = rng.randint(0, L - pn), rng.randint(0, C - pc)
        emit("win 1 0 %d %d %d %d 0" % (pt, pl, pn, pc))
        h.w[1] = dict(parent=0, rect=(pt, pl, pn, pc), closed=False, freed=False, vis=True)
        par = 1; note("stacking_in_pane")
    cl, cc = rng.randint(0, pn - 1), rng.randint(0, pc - 1)     # the contested cell, in the parent's coordinates
    def covering():
        if not strict and rng.random() < 0.12:
            note("stacking_sibling_off_cell"); return h.rect_in(par)
        t = rng.randint(max(0, cl - 3), cl); l = rng.randint(max(0, cc - 5), cc)
        return (t, l, cl - t + rng.randint(1, 3), cc - l + rng.randint(1, 5))
    sibs = []
    for _ in range(rng.randint(2, 4)):
        i = len(h.w); r = covering()
        emit("win %d %d %d %d %d %d %d" % ((i, par) + r + (rng.choice([0, 0, 0, 2]),)))
        h.w[i] = dict(parent=par, rect=r, closed=False, freed=False, vis=True)
        sibs.append(i)
    f = rng.choice(sibs); holder = f
    ft, fl = h.w[f]["rect"][0], h.w[f]["rect"][1]
    if rng.random() < 0.3:
        # the focus sits one level down: the cell belongs to a child of one of the siblings
        g = len(h.w); _, _, fn, fc = h.w[f]["rect"]
        emit("win %d %d 0 0 %d %d 0" % (g, f, fn, fc))
        h.w[g] = dict(parent=f, rect=(0, 0, fn, fc), closed=False, freed=False, vis=True)
        holder = g; note("stacking_focus_in_child")
    emit("curpos %d %d %d" % (holder, cl - ft, cc - fl))
    if rng.random() < 0.5: emit("curshape %d %d" % (holder, rng.choice([1, 2, 3])))
    emit("focus %d" % holder); h.holder = holder
    emit("flush")
    for _ in range(rng.randint(3, 8)):
        k = rng.choice([1, 2, 2, 2, 3, 3, 4])
        a = rng.choice(sibs)
        for n in range(k):
            x = rng.random()
            j = f if x < 0.35 else a if x < 0.65 else rng.choice(sibs)
            emit("%s %d" % (rng.choice(RESTACK), j))
        if k > 1: note("stacking_burst_%d" % k)
        y = rng.random()
        if y < 0.08:
            emit("curpos %d %d %d" % (holder, cl - ft + rng.choice([0, 0, 1, -1]), cc - fl + rng.choice([0, 0, 1, -1])))
        elif y < 0.14:
            j = rng.choice(sibs); emit("hide %d" % j)
            if rng.random() < 0.6: emit("flush")
            emit("show %d" % j)
            if j == f or holder == j: emit("focus %d" % holder)
        elif y < 0.2 and len(h.w) < 8:
            i = len(h.w); r = covering()
            emit("win %d %d %d %d %d %d %d" % ((i, par) + r + (rng.choice([0, 2]),)))
            h.w[i] = dict(parent=par, rect=r, closed=False, freed=False, vis=True)
            sibs.append(i)
        emit("flush")


def random_history(disc):
    L, C = rng.choice([(1, 1), (3, 4), (6, 10), (8, 16), (8, 16), (10, 20), (12, 30)])
    note("discipline_%d" % disc)
    h = Hist(L, C, disc)
    for _ in range(rng.randint(1, 5)):
        h.new_win()
    for i in list(h.w):
        if i and rng.random() < 0.5:
            emit("curpos %d %d %d" % ((i,) + h.cursor_cell(i)))
    n = rng.randint(4, 26)
    for _ in range(n):
        h.step()
    emit("flush")


info = {}
if a.tier == "exhaustive":
    setup = ["new 6 10", "win 1 0 1 1 4 6 0", "win 2 0 2 4 3 5 0", "win 3 1 1 1 2 3 0", "notify 1 1", "notify 0 1",
             "curpos 1 1 3", "curpos 2 0 0", "curpos 3 0 1", "flush"]
    alphabet = ["focus 0", "focus 1", "focus 2", "focus 3", "hide 1", "hide 2", "hide 3", "show 1", "show 3",
                "lower 2", "raise 1", "curvis 1 0", "curpos 1 0 0", "curshape 3 2", "close 3", "hide 0", "flush", "repos 1 2 4"]
    nh = 0
    for k in range(1, 5):
        for seq in itertools.product(alphabet, repeat=k):
            closed = False; bad = False; pend = False
            for s in seq:
                if s == "close 3": closed = True
                elif closed and s.endswith(" 3") or (closed and s.startswith("curshape 3")): bad = True
            if bad: continue
            for s in setup: emit(s)
            holder = None
            for s in seq:
                emit(s)
                if s.startswith("focus "): holder = s
                elif s == "repos 1 2 4" and holder != "focus 1":
                    # not the focus holder: C01's proviso (exposes of the old and the new area)
                    emit("exposer 0 1 1 4 6"); emit("exposer 0 2 4 4 6")
            emit("flush")
            nh += 1
    # the same tree on the library's mock terminal, windows with an explicit blink mode and distinct shapes, and the
    # terminal resized through the windows and back: every sequence of <= 3 operations
    setup2 = ["newmock 6 10"] + setup[1:-1] + ["curshape 1 2", "curblink 1 1", "curshape 2 3", "curblink 2 0", "curshape 3 3", "curblink 3 1", "flush"]
    alphabet2 = ["focus 0", "focus 1", "focus 2", "focus 3", "hide 1", "hide 3", "show 1", "show 3", "lower 2", "curvis 1 0",
                 "curpos 1 0 0", "curshape 3 2", "curblink 3 0", "curblink 1 0", "hide 0", "flush",
                 "termsize 3 5", "termsize 2 2", "termsize 6 10", "termsize 8 12"]
    nh2 = 0
    for k in range(1, 4):
        for seq in itertools.product(alphabet2, repeat=k):
            for s in setup2: emit(s)
            for s in seq: emit(s)
            emit("flush")
            nh2 += 1
    # restacking requests in every order: three overlapping siblings over the focused window's cursor cell, every sequence
    # of <= 4 requests / flushes, closed by a flush
    setup3 = ["new 6 10", "win 1 0 1 1 3 5 0", "win 2 0 1 1 3 5 0", "win 3 0 0 0 3 4 0", "curpos 1 1 1", "curshape 1 2", "focus 1", "flush"]
    alphabet3 = ["%s %d" % (o, w) for w in (1, 2) for o in RESTACK] + ["raisefront 3", "lower 3", "flush"]
    nh3 = 0
    for k in range(1, 5):
        for seq in itertools.product(alphabet3, repeat=k):
            for s in setup3: emit(s)
            for s in seq: emit(s)
            emit("flush")
            nh3 += 1
    info = {"exhaustive_bound": "every sequence of <=4 operations from an 18-letter alphabet (incl. a reposition of window 1, without exposes when it holds the focus) on a fixed two-level tree (root, two overlapping children, one grandchild), each closed by a flush; and on the library's mock terminal, with explicit blink modes and distinct shapes, every sequence of <=3 operations from a 20-letter alphabet that includes four terminal resizes; and every sequence of <=4 restacking requests / flushes from an 11-letter alphabet over three overlapping siblings that all cover the focused window's cursor cell", "histories": nh + nh2 + nh3}
else:
    H = 1800 if a.tier == "quick" else 12000
    for k in range(H):
        if k < 24 or k % 8 == 5: stacking_history(strict=k < 24)
        elif k % 4 == 3: scenario_history()
        else: random_history(2 if k < 0.15 * H else 1 if k < 0.3 * H else 0)
    info = {"histories": H}

open(a.out, "w").write("\n".join(lines) + "\n")
info.update({"ops": len(lines), "mix": mix, "features": feat})
print(json.dumps(info))
