#!/usr/bin/env python3
"""Operation generator for engine `rbcopy` (C13).  All randomness from --seed.

quick / thorough: a C03-style drawing program (text / erase / skip / char / line runs, overwrites that split runs,
pens) on a small buffer, then an auxiliary-state prologue (save / savepen / setpen / mask / clip, rarely a
translation), then one to three copy / move operations whose source rectangle lies inside the buffer and whose
destination is chosen by overlap class (same line left / right, above / below, diagonal; overlapping by
construction in most cases; rectangle edges fall anywhere relative to the runs) and whose destination
*rectangle* has the source's size in half of the calls and a size of its own otherwise (1x1 "position", empty,
smaller, larger, the whole buffer, rarely negative: only the position is meaningful), each followed by `restore` or a
cursor-relative operation and the public queries, so that a disturbed stack, pen or cursor is visible twice (in
the raw dump and in what later operations do).  A share of the histories blits a second buffer (own drawing
program, own size) onto the first, under clip / mask / pen / translation.
exhaustive: on a 3x6 buffer, a list of hand-made contents x every source rectangle x every destination position
that keeps the rectangle inside the buffer, copy and move, followed by `restore` and `getcells`; for the
hand-made contents every move again with a 1x1 and with a whole-buffer destination rectangle.
Prints one JSON line: the input distribution actually produced.
"""
import argparse, random, json, itertools, collections

ap = argparse.ArgumentParser()
ap.add_argument("--seed", type=int, default=1); ap.add_argument("--tier", default="quick")
ap.add_argument("--out", required=True); ap.add_argument("--prop", default="C13")
a = ap.parse_args()
rng = random.Random(a.seed)
stats = collections.Counter()
classes = collections.Counter()
sizes = collections.Counter()
aux = collections.Counter()
dsizes = collections.Counter()
variants = collections.Counter()
merges = collections.Counter()


def hexs(b):
    return b.hex() if b else "-"


ASCII = "abcdefghijklmnopqrstuvwxyz"
COMBINING = ["́", "̈"]
WIDE = ["Ａ", "一", "あ"]
NARROW = ["é", "─", "Ω"]


def gen_text(maxcols, wide_ok=True):
    """A text of 1..maxcols columns; mostly ASCII (distinct letters, so that a wrong slice is visible)."""
    n = rng.randint(1, max(1, maxcols))
    k = rng.random()
    start = rng.randint(0, 25)
    if k < 0.6 or not wide_ok:
        return "".join(ASCII[(start + i) % 26] for i in range(n)).encode(), "ascii"
    out, cols, i = [], 0, 0
    while cols < n:
        r = rng.random()
        if r < 0.5 or n - cols < 2:
            if r < 0.4: out.append(ASCII[(start + i) % 26])
            else: out.append(rng.choice(NARROW))
            cols += 1
        elif r < 0.8:
            out.append(rng.choice(WIDE)); cols += 2
        else:
            if out: out.append(rng.choice(COMBINING))
            else: out.append(ASCII[(start + i) % 26]); cols += 1
        i += 1
    return "".join(out).encode(), "mixed"


# RGB8 secondaries: the extremes, values that differ from one another in a single channel (each of r, g, b)
RGBS = ["000000", "000000", "ffffff", "ff0000", "00ff00", "102030", "000001", "000100", "010000", "102031", "fffffe"]
DEFAULTS = {"fg": "-1", "bg": "-1", "b": "0", "u": "0", "i": "0", "rv": "0", "strike": "0", "af": "0", "blink": "0"}
ATTR_ORDER = ["fg", "bg", "b", "u", "i", "rv", "strike", "af", "blink"]


def pen_items(spec):
    if spec in ("NULL", "-"):
        return {}
    return dict(t.split("=", 1) for t in spec.split(","))


def pen_spec(items):
    return ",".join(f"{k}={items[k]}" for k in ATTR_ORDER if k in items) or "-"


def rgb_neighbour(v):
    """Another RGB8 value: one channel changed by one, or one of the secondaries."""
    if rng.random() < 0.5:
        ch = [int(v[i:i + 2], 16) for i in (0, 2, 4)]
        k = rng.randint(0, 2)
        ch[k] = ch[k] + 1 if ch[k] < 255 and (ch[k] == 0 or rng.random() < 0.5) else ch[k] - 1
        return "%02x%02x%02x" % tuple(ch)
    return rng.choice([x for x in RGBS if x != v])


def pen_variant(spec):
    """A pen that differs from `spec` in one respect: an RGB8 value added to / dropped from / changed on a colour
    (same index), an attribute given explicitly with its default value or such an attribute dropped (another pen
    with the same rendition), one attribute changed, or nothing at all."""
    it = pen_items(spec)
    cols = [k for k in ("fg", "bg") if k in it]
    for _ in range(8):
        k = rng.random()
        if k < 0.34:
            plain = [c for c in cols if "#" not in it[c]]
            if plain:
                c = rng.choice(plain); it[c] += "#" + rng.choice(RGBS); variants["rgb8-added"] += 1
            else:
                c = rng.choice([c for c in ("fg", "bg") if c not in it] or ["fg"])
                if c in it: continue
                it[c] = str(rng.choice([-1, 0, 1, 7])) + "#" + rng.choice(RGBS); variants["colour-with-rgb8-added"] += 1
        elif k < 0.54:
            rich = [c for c in cols if "#" in it[c]]
            if not rich: continue
            c = rng.choice(rich); it[c] = it[c].split("#")[0]; variants["rgb8-dropped"] += 1
        elif k < 0.68:
            rich = [c for c in cols if "#" in it[c]]
            if not rich: continue
            c = rng.choice(rich); idx, v = it[c].split("#"); it[c] = idx + "#" + rgb_neighbour(v); variants["rgb8-changed"] += 1
        elif k < 0.76:
            absent = [a for a in ATTR_ORDER if a not in it]
            if not absent: continue
            a_ = rng.choice(absent); it[a_] = DEFAULTS[a_]; variants["default-made-explicit"] += 1
        elif k < 0.82:
            dflt = [a for a in it if it[a] == DEFAULTS[a]]
            if not dflt: continue
            del it[rng.choice(dflt)]; variants["explicit-default-dropped"] += 1
        elif k < 0.92:
            a_ = rng.choice(["fg", "bg", "b", "u", "i"])
            if a_ in ("fg", "bg"):
                rest = it[a_].split("#")[1:] if a_ in it else []
                it[a_] = "#".join([str(rng.choice([0, 1, 2, 7]))] + rest)
            else:
                it[a_] = str(rng.randint(0, 1))
            variants["attribute-changed"] += 1
        else:
            variants["identical"] += 1
        break
    return pen_spec(it)


def gen_pen():
    if rng.random() < 0.05:
        return "NULL"
    if rng.random() < 0.10:
        return "-"
    items = []
    def colour(name):
        idx = rng.choice([-1, 0, 1, 2, 3, 7, 8, 15, 255])
        s = f"{name}={idx}"
        if rng.random() < 0.25:
            s += "#" + rng.choice(RGBS)
        return s
    p = rng.choice([0.2, 0.4])
    if rng.random() < 0.5: items.append(colour("fg"))
    if rng.random() < p: items.append(colour("bg"))
    if rng.random() < p: items.append(f"b={rng.randint(0, 1)}")
    if rng.random() < p: items.append(f"u={rng.randint(0, 3)}")
    if rng.random() < p: items.append(f"i={rng.randint(0, 1)}")
    if rng.random() < p / 2: items.append(f"rv={rng.randint(0, 1)}")
    if rng.random() < p / 2: items.append(f"strike={rng.randint(0, 1)}")
    if rng.random() < p / 2: items.append(f"af={rng.choice([0, 1, 5])}")
    if rng.random() < p / 2: items.append(f"blink={rng.randint(0, 1)}")
    return ",".join(items) if items else "-"


class Hist:
    def __init__(self, L, C):
        self.ops = [f"new {L} {C}"]
        self.dims = [(L, C)]
        self.cur = 0
        self.depth = 0
        self.xl = (0, 0)
        # what the generator knows of each buffer while it is drawn (no stack, clip or translation yet): the current
        # pen and which cells hold line segments drawn with which pen (approximate; only used to aim rectangles)
        self.pens = ["-"]
        self.lcells = [{}]
        self.vc = None
        self.family = None

    @property
    def L(self): return self.dims[self.cur][0]
    @property
    def C(self): return self.dims[self.cur][1]

    def emit(self, s):
        self.ops.append(s)
        stats[s.split()[0]] += 1
        self.track(s.split())

    def track(self, t):
        op = t[0]
        if op == "addbuf":
            self.pens.append("-"); self.lcells.append({})
            return
        lc = self.lcells[self.cur]; L, C = self.L, self.C
        v = [int(x) for x in t[1:] if x.lstrip("-").isdigit() and len(x) < 8]
        if op == "setpen":
            self.pens[self.cur] = pen_spec(pen_items(t[1]))
        elif op == "hline":
            for c in range(max(v[1], 0), min(v[2], C - 1) + 1):
                if 0 <= v[0] < L: lc[(v[0], c)] = self.pens[self.cur]
        elif op == "vline":
            for l in range(max(v[0], 0), min(v[1], L - 1) + 1):
                if 0 <= v[2] < C: lc[(l, v[2])] = self.pens[self.cur]
        elif op in ("text_at", "erase_at", "skip_at"):
            for c in range(max(int(t[2]), 0), C): lc.pop((int(t[1]), c), None)
        elif op == "char_at":
            lc.pop((v[0], v[1]), None)
        elif op in ("eraserect", "skiprect"):
            for l in range(v[0], v[0] + v[2]):
                for c in range(v[1], v[1] + v[3]): lc.pop((l, c), None)
        elif op == "clear":
            lc.clear()
        elif op == "goto":
            self.vc = (v[0], v[1])
        elif op in ("text", "erase") and self.vc:
            for c in range(max(self.vc[1], 0), C): lc.pop((self.vc[0], c), None)

    def inrect(self, minl=1, minc=1):
        """A rectangle inside the current buffer."""
        n = rng.randint(minl, self.L); c = rng.randint(minc, self.C)
        t = rng.randint(0, self.L - n); l = rng.randint(0, self.C - c)
        return t, l, n, c

    def draw(self, n, wide_ok=True):
        """A drawing program: later operations overwrite parts of earlier runs, which splits them."""
        L, C = self.L, self.C
        for _ in range(n):
            r = rng.random()
            line = rng.randint(0, L - 1)
            if r < 0.30:
                col = rng.randint(-1, C - 1)
                t, kind = gen_text(min(C + 1, 8), wide_ok)
                self.emit(f"text_at {line} {col} {hexs(t)}")
            elif r < 0.42:
                col = rng.randint(0, C - 1)
                self.emit(f"erase_at {line} {col} {rng.randint(1, C)}")
            elif r < 0.50:
                col = rng.randint(0, C - 1)
                self.emit(f"skip_at {line} {col} {rng.randint(1, max(1, C // 2))}")
            elif r < 0.58:
                self.emit(f"char_at {line} {rng.randint(0, C - 1)} {rng.choice([65, 66, 0xe9, 0x2500, 0xff21])}")
            elif r < 0.68:
                c1 = rng.randint(0, C - 1); c2 = min(C - 1, c1 + rng.randint(0, 3))
                self.emit(f"hline {line} {c1} {c2} {rng.randint(1, 3)} {rng.randint(0, 3)}")
            elif r < 0.76:
                l2 = min(L - 1, line + rng.randint(0, 2))
                self.emit(f"vline {line} {l2} {rng.randint(0, C - 1)} {rng.randint(1, 3)} {rng.randint(0, 3)}")
            elif r < 0.86:
                self.emit(f"setpen {gen_pen()}")
            elif r < 0.91:
                self.emit("eraserect %d %d %d %d" % self.inrect())
            elif r < 0.94:
                self.emit("skiprect %d %d %d %d" % self.inrect())
            elif r < 0.97:
                self.emit(f"goto {line} {rng.randint(0, C - 1)}")
                t, kind = gen_text(4, wide_ok)
                self.emit(f"text {hexs(t)}")
            else:
                self.emit("clear")

    def draw_lines(self, n, wide_ok=True):
        """A drawing program of line segments in pens of one family: every new pen is a variant (`pen_variant`) of an
        earlier one, so that line cells whose pens differ in a single respect - an RGB8 value on the same colour
        index, an explicit default - come to lie next to and across one another."""
        L, C = self.L, self.C
        if self.family is None:
            base = gen_pen()
            for _ in range(3):
                if "fg=" in base or "bg=" in base: break
                base = gen_pen()
            self.family = [pen_spec(pen_items(base))]
        self.emit(f"setpen {rng.choice(self.family)}")
        for _ in range(n):
            r = rng.random()
            line = rng.randint(0, L - 1)
            if r < 0.34 or (_ == n // 2 and len(self.family) == 1):
                new = pen_variant(rng.choice(self.family))
                self.family.append(new)
                self.emit(f"setpen {new}")
            elif r < 0.64:
                c1 = rng.randint(0, C - 1); c2 = min(C - 1, c1 + rng.randint(0, C))
                self.emit(f"hline {line} {c1} {c2} {rng.randint(1, 3)} {rng.randint(0, 3)}")
            elif r < 0.90:
                l2 = min(L - 1, line + rng.randint(0, L))
                self.emit(f"vline {line} {l2} {rng.randint(0, C - 1)} {rng.randint(1, 3)} {rng.randint(0, 3)}")
            else:
                self.draw(1, wide_ok)

    def redraw_lines(self, ops):
        """Some of the line operations of another buffer again (same or neighbouring position) in variant pens: the
        source of a blit whose line cells land on the destination's."""
        L, C = self.L, self.C
        for o in ops:
            t = o.split()
            if t[0] not in ("hline", "vline") or rng.random() < 0.4:
                continue
            if rng.random() < 0.6:
                new = pen_variant(rng.choice(self.family)); self.family.append(new)
                self.emit(f"setpen {new}")
            v = [int(x) for x in t[1:]]
            d = rng.choice([0, 0, 0, 1, -1])
            if t[0] == "hline":
                l = min(max(v[0] + d, 0), L - 1); c1 = min(v[1], C - 1); c2 = min(v[2], C - 1)
                self.emit(f"hline {l} {c1} {c2} {v[3]} {v[4]}")
            else:
                c = min(max(v[2] + d, 0), C - 1); l1 = min(v[0], L - 1); l2 = min(v[1], L - 1)
                self.emit(f"vline {l1} {l2} {c} {v[3]} {v[4]}")

    def pair_lines(self):
        """Source rectangle and destination position that put a line cell onto another line cell (of another pen,
        mostly), or None."""
        L, C = self.L, self.C
        lc = self.lcells[self.cur]
        cells = sorted(lc)
        if len(cells) < 2:
            return None
        s = rng.choice(cells)
        others = [d for d in cells if d != s and lc[d] != lc[s]]
        same = [d for d in cells if d != s and lc[d] == lc[s]]
        if others and (not same or rng.random() < 0.85):
            d = rng.choice(others); merges["line-onto-line-other-pen"] += 1
        else:
            d = rng.choice(same); merges["line-onto-line-same-pen"] += 1
        n = rng.randint(1, L); c = rng.randint(1, C)
        t = rng.randint(max(0, s[0] - n + 1), min(s[0], L - n)); l = rng.randint(max(0, s[1] - c + 1), min(s[1], C - c))
        dt = t + d[0] - s[0]; dl = l + d[1] - s[1]
        inside = 0 <= dt and dt + n <= L and 0 <= dl and dl + c <= C
        overlap = abs(dt - t) < n and abs(dl - l) < c
        classes["line-onto-line"] += 1
        classes["overlapping" if overlap else "disjoint"] += 1
        classes["dest-inside" if inside else "dest-partly-outside"] += 1
        return (dt, dl, t, l, n, c) + self.destsize(dt, dl, n, c)

    def prologue(self):
        """Make the auxiliary state non-neutral (so that a disturbance of it is visible)."""
        r = rng.random()
        if r < 0.25:
            aux["neutral"] += 1
            return
        if rng.random() < 0.7:
            k = rng.choice(["save", "save", "savepen"])
            if rng.random() < 0.6:
                self.emit(f"goto {rng.randint(0, self.L - 1)} {rng.randint(0, self.C - 1)}")
            self.emit(k); self.depth += 1; aux[k] += 1
            if rng.random() < 0.3:
                self.emit(rng.choice(["save", "savepen"])); self.depth += 1; aux["nested"] += 1
        if rng.random() < 0.6:
            if self.family and rng.random() < 0.6:
                self.emit(f"setpen {pen_variant(rng.choice(self.family))}"); aux["setpen-variant"] += 1
            else:
                self.emit(f"setpen {gen_pen()}")
            aux["setpen"] += 1
        if rng.random() < 0.35:
            t, l, n, c = self.inrect()
            n = min(n, 2); c = min(c, 3)
            self.emit(f"mask {t} {l} {n} {c}"); aux["mask"] += 1
        if rng.random() < 0.30:
            t, l, n, c = self.inrect(min(2, self.L), min(2, self.C))
            self.emit(f"clip {t} {l} {n} {c}"); aux["clip"] += 1
        if rng.random() < 0.5:
            self.emit(f"goto {rng.randint(0, self.L - 1)} {rng.randint(0, self.C - 1)}"); aux["cursor"] += 1
        if rng.random() < 0.06:
            d = rng.choice([(0, 1), (1, 0), (-1, -1), (0, -2)])
            self.emit(f"xl {d[0]} {d[1]}"); self.xl = d; aux["translation"] += 1

    def pair(self):
        """Source rectangle inside the buffer and a destination position, by overlap class."""
        L, C = self.L, self.C
        if self.family and rng.random() < 0.75:
            p = self.pair_lines()
            if p: return p
        t, l, n, c = self.inrect()
        k = rng.random()
        if k < 0.03:
            cls = "identity"; dt, dl = t, l
        elif k < 0.30:
            cls = "same-line-left"; dt = t; dl = l - rng.randint(1, max(1, min(c + 1, 4)))
        elif k < 0.57:
            cls = "same-line-right"; dt = t; dl = l + rng.randint(1, max(1, min(c + 1, 4)))
        elif k < 0.70:
            cls = "up"; dt = t - rng.randint(1, max(1, n)); dl = l + rng.choice([0, 0, -1, 1, -2, 2])
        elif k < 0.83:
            cls = "down"; dt = t + rng.randint(1, max(1, n)); dl = l + rng.choice([0, 0, -1, 1, -2, 2])
        else:
            cls = "anywhere"; dt = rng.randint(-1, L); dl = rng.randint(-2, C)
        # mostly keep the destination inside the buffer too
        if rng.random() < 0.8 and cls != "identity":
            dt = min(max(dt, 0), L - n); dl = min(max(dl, 0), C - c)
            if (dt, dl) == (t, l):
                dl = l + 1 if l + c < C else (l - 1 if l > 0 else l)
                if (dt, dl) == (t, l): dt = t + 1 if t + n < L else (t - 1 if t > 0 else t)
        inside = 0 <= dt and dt + n <= L and 0 <= dl and dl + c <= C
        overlap = abs(dt - t) < n and abs(dl - l) < c
        classes[cls] += 1
        classes["overlapping" if overlap else "disjoint"] += 1
        classes["dest-inside" if inside else "dest-partly-outside"] += 1
        return (dt, dl, t, l, n, c) + self.destsize(dt, dl, n, c)

    def destsize(self, dt, dl, n, c):
        """Size of the destination rectangle as passed: the library takes the size from the source, so any
        size must behave like the source's.  () = the 6-argument form (destination of the source's size)."""
        L, C = self.L, self.C
        k = rng.random()
        if k < 0.50:
            dsizes["same"] += 1
            return ()
        if k < 0.68:
            cls, d = "1x1", (1, 1)
        elif k < 0.73:
            cls, d = "empty", rng.choice([(0, 0), (0, c), (n, 0)])
        elif k < 0.83:
            cls, d = "smaller", (rng.randint(1, n), rng.randint(1, c))
            if d == (n, c): d = (n, c - 1) if c > 1 else ((n - 1, c) if n > 1 else (0, 0))
        elif k < 0.93:
            cls, d = "larger", (n + rng.randint(0, 2), c + rng.randint(0, 3))
            if d == (n, c): d = (n, c + 1)
        elif k < 0.98:
            cls, d = "to-buffer-edge", (max(0, L - max(dt, 0)), max(0, C - max(dl, 0)))
        else:
            cls, d = "negative", rng.choice([(-1, -1), (-1, c), (n, -2)])
        dsizes[cls] += 1
        return d

    def followup(self):
        r = rng.random()
        if r < 0.45:
            self.emit("restore"); self.depth = max(0, self.depth - 1)
        elif r < 0.60:
            self.emit(f"erase {rng.randint(1, 2)}")
        elif r < 0.70:
            t, kind = gen_text(2, False)
            self.emit(f"text {hexs(t)}")
        elif r < 0.80:
            self.emit(f"erase_at {rng.randint(0, self.L - 1)} 0 {self.C}")
        self.emit("getcur")
        self.emit("getcells")


def random_history():
    L = rng.choice([1, 2, 2, 3, 3, 3, 4, 5]); C = rng.choice([2, 3, 4, 5, 6, 6, 7, 8, 9, 10])
    sizes[f"{L}x{C}"] += 1
    h = Hist(L, C)
    wide_ok = rng.random() < 0.35
    # a share of the histories draws mostly line segments, in pens that are variants of one another
    lines_mode = rng.random() < 0.24
    if lines_mode:
        merges["histories"] += 1
        if rng.random() < 0.4: h.draw(rng.randint(1, 3), wide_ok)
        h.draw_lines(rng.randint(4, 10), wide_ok)
    else:
        h.draw(rng.randint(2, 9), wide_ok)
    if rng.random() < 0.22:
        # blit: a second buffer with its own program
        L2 = rng.choice([1, 2, 3, L, L]); C2 = rng.choice([2, 4, C, C, C + 2])
        if lines_mode and rng.random() < 0.7: L2, C2 = L, C
        h.emit(f"addbuf {L2} {C2}"); h.dims.append((L2, C2))
        h.emit("sel 1"); h.cur = 1
        if lines_mode:
            first = list(h.ops)
            if rng.random() < 0.5: h.draw_lines(rng.randint(1, 4), wide_ok)
            else: h.emit(f"setpen {pen_variant(rng.choice(h.family))}")
            h.redraw_lines(first)
        else:
            h.draw(rng.randint(1, 7), wide_ok)
        if rng.random() < 0.3:
            h.emit(f"xl {rng.randint(-1, 1)} {rng.randint(-1, 1)}")     # a translation on the *source* is ignored
        h.emit("sel 0"); h.cur = 0
        h.prologue()
        if rng.random() < 0.25 and h.xl == (0, 0):
            d = rng.choice([(0, 1), (1, 0), (1, 2), (0, -1)])
            h.emit(f"xl {d[0]} {d[1]}"); h.xl = d; aux["blit-translation"] += 1
        h.emit("blit 1" if rng.random() < 0.95 else "blit 0")
        h.followup()
        if rng.random() < 0.3:
            h.emit("sel 1"); h.cur = 1
            h.emit("blit 0")
            h.emit("getcells")
        return h.ops
    h.prologue()
    for _ in range(rng.choice([1, 1, 2, 3])):
        op = "copy" if rng.random() < 0.65 else "move"
        h.emit(" ".join([op] + [str(x) for x in h.pair()]))
        h.followup()
    for _ in range(h.depth):
        h.emit("restore")
    h.emit("getcells")
    return h.ops


# hand-made contents of the exhaustive tier (3x6 buffer): runs of every kind, split runs, hidden text, lines
CONTENTS = [
    [],
    ["text_at 0 0 616263646566", "text_at 1 1 6768696a", "text_at 2 0 6b6c"],
    ["text_at 0 0 616263646566", "erase_at 0 2 2", "text_at 1 0 6768696a6b6c", "char_at 1 3 65", "text_at 2 2 6d6e"],
    ["setpen fg=1", "erase_at 0 0 6", "setpen bg=2", "erase_at 0 1 3", "setpen b=1", "text_at 1 1 78797a", "erase_at 2 2 3"],
    ["hline 0 0 5 1 3", "vline 0 2 2 1 3", "vline 0 2 4 2 0", "hline 2 1 5 3 1"],
    ["text_at 0 1 61626364", "skip_at 0 2 2", "setpen fg=3", "erase_at 1 0 6", "skip_at 1 2 1", "char_at 2 0 65", "char_at 2 1 66", "char_at 2 5 67"],
    ["text_at 0 0 61efbca162", "text_at 1 1 78cc81797a", "text_at 2 0 e4b880e4b880e4b880"],
    ["setpen fg=2,u=1", "text_at 0 0 616263646566", "setpen bg=5", "text_at 0 2 7879", "setpen -", "hline 1 0 3 1 0", "setpen i=1", "erase_at 1 2 3", "text_at 2 1 717273"],
    # line cells in pens that differ only by an RGB8 value on the same colour index (none / #000000 / #000001) or by an explicit default
    ["setpen fg=0", "hline 0 0 5 1 0", "vline 0 2 1 1 0", "setpen fg=0#000000", "hline 1 0 3 1 0", "vline 0 2 4 1 0",
     "setpen fg=0#000001", "hline 2 0 2 1 0", "setpen fg=0,b=0", "hline 2 3 5 1 0", "vline 1 2 3 2 0"],
]
PROLOGUES = [
    [],
    ["goto 1 1", "save", "setpen fg=4,b=1"],
    ["savepen", "mask 1 2 1 2", "setpen rv=1"],
    ["goto 0 0", "save", "clip 0 1 3 4"],
]


def generated_contents(k):
    """`k` more contents for the exhaustive tier: drawing programs from a fixed stream (independent of --seed)."""
    global rng
    saved = rng
    rng = random.Random(4242)
    out = []
    for i in range(k):
        h = Hist(3, 6)
        h.draw(rng.randint(3, 8), wide_ok=(i % 3 == 0))
        out.append(h.ops[1:])
    rng = saved
    return out


def exhaustive():
    out = []
    n = 0
    L, C = 3, 6
    rects = [(t, l, nn, c) for nn in range(1, L + 1) for t in range(0, L - nn + 1)
             for c in range(1, C + 1) for l in range(0, C - c + 1)]
    contents = CONTENTS + generated_contents(24)
    for ci, content in enumerate(contents):
        # every content: neutral state (copy and move) and one of the auxiliary prologues (copy)
        for pi in (0, 1 + ci % (len(PROLOGUES) - 1)):
            pro = PROLOGUES[pi]
            for (t, l, nn, c) in rects:
                for dt in range(0, L - nn + 1):
                    for dl in range(0, C - c + 1):
                        for op in ("copy", "move"):
                            if op == "move" and (pi or (dt, dl) == (t, l)):
                                continue
                            out.append(f"new {L} {C}")
                            out.extend(content)
                            out.extend(pro)
                            out.append(f"{op} {dt} {dl} {t} {l} {nn} {c}")
                            out.append("restore")
                            out.append("getcells")
                            n += 1
                            cls = "identity" if (dt, dl) == (t, l) else ("same-line" if dt == t else "other-line")
                            classes[cls] += 1
                            if op == "move" and ci < len(CONTENTS):
                                # the destination rectangle's size is not meaningful: 1x1 and the whole buffer
                                for dn, dc in ((1, 1), (L, C)):
                                    if (dn, dc) == (nn, c):
                                        continue
                                    out.append(f"new {L} {C}")
                                    out.extend(content)
                                    out.append(f"move {dt} {dl} {t} {l} {nn} {c} {dn} {dc}")
                                    out.append("getcells")
                                    n += 1
                                    dsizes[f"{dn}x{dc}"] += 1
    stats.clear()
    for op in out:
        stats[op.split()[0]] += 1
    return out, n, len(contents)


lines = []
if a.tier == "exhaustive":
    lines, n, nc = exhaustive()
    info = {"histories": n, "exhaustive_bound": "3x6 buffer: %d contents (%d hand-made, the rest from a fixed stream) x {neutral state: copy and move; one auxiliary prologue: copy} x every source rectangle (126) x every destination position that keeps it inside the buffer (1274 pairs); hand-made contents: every move also with a 1x1 and a 3x6 destination rectangle" % (nc, len(CONTENTS))}
else:
    N = 2600 if a.tier == "quick" else 12000
    for _ in range(N):
        lines.extend(random_history())
    info = {"histories": N}
open(a.out, "w").write("\n".join(lines) + "\n")
info.update({"ops": len(lines), "op_mix": dict(stats.most_common()), "pair_classes": dict(classes.most_common()),
             "aux_state": dict(aux.most_common()), "dest_rect_size": dict(dsizes.most_common()),
             "pen_variants": dict(variants.most_common()), "aimed_line_merges": dict(merges.most_common()), "buffer_sizes": dict(sizes.most_common(8))})
print(json.dumps(info))
