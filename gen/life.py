#!/usr/bin/env python3
"""Operation generator for engine `life` (C08).  All randomness from --seed.

Histories are lifecycles of a small window tree (root + up to 6 windows, nested up to 3 deep) on one
terminal, with application pens, strings and render buffers on the side.  The generator plays an application
that knows the rules (it tracks which handles it still holds, which windows are closed or were taken down with
their parent) and is *adversarial about order*: parents before children, children before parents, extra
references that make a window survive its parent, restacking requests left pending across close/unref/flush,
key and mouse handlers that close or unref their own window (or an ancestor that is in the middle of
dispatching), terminal references dropped early.  A minority of operations deliberately targets handles the
application no longer holds (the harness answers `skip`), so that the bookkeeping itself is compared.
Every history ends with `end` (drop everything, leak check).

Families (--tier quick: 3000 histories, thorough: 15000 per seed):
  tree      window lifecycles without handlers
  handlers  lifecycles with key/mouse handlers acting on their own window / ancestors (the property's case)
  foreign   handlers that close, unref, hide or restack *other* windows (siblings in the middle of the walk, drag sources)
  objects   pens (shared with windows), strings, render buffers, terminal references
  pens      pens with internal reference traffic: ON_CHANGE handlers that unref/ref the pen, set_colour_attr_desc
            with accepted and rejected descriptions, copy / copy_attr (freeze/thaw)
  copyout   get_cell_text / get_span with buffers around the exact fit; mock terminal display text
  terminput / toplevel   the terminal's input entry points; the toplevel instance
  mockresize  tickit_mockterm_resize on a mock terminal holding content: every combination of fewer / as many / more
            lines and columns (also several in a row, with windows, after the root window is gone), display text read
            back, printing and flushing at the new size
  sigwinch  tickit_term_observe_sigwinch over the main terminal and up to six further ones: observe / stop in any
            order, terminals destroyed at any position of the observer list (mostly third or later), SIGWINCH raised
            afterwards, the main terminal released through its root window
  drag      drag gestures aimed at a window of a chain root > panel > handle (> grip): the handler of the source (bound before
            the press, after it, or replaced after DRAG_START) closes / hides / drops / restacks its own window or one above
            it; the application drops or closes the chain afterwards; further DRAG reports and the RELEASE
  timers    watches of the toplevel instance (and key handlers on the terminal) that register timers for past, present and
            future instants and deferred calls while they run
  termout   the output side through the real xterm driver: tickit_term_set_output_buffer around what is pending, printn,
            goto, flush, the capability report, setpen / chpen with pens of every attribute (19 SGR parameters)
exhaustive: every order of <= 5 lifecycle operations on a root with two nested children and one pen
            (DESIGN §7 C08), each followed by flush and end.
"""
import argparse, random, json, itertools, zlib
def dhash(seq): return zlib.crc32("|".join(seq).encode())

ap = argparse.ArgumentParser()
ap.add_argument("--seed", type=int, default=1); ap.add_argument("--tier", default="quick")
ap.add_argument("--out", required=True); ap.add_argument("--prop", default="C08")
ap.add_argument("--families", default="")
a = ap.parse_args()
rng = random.Random(a.seed)
lines, mix, fam_count, resize_mix = [], {}, {}, {}

def emit(s):
    lines.append(s)
    k = s.split()[0]
    mix[k] = mix.get(k, 0) + 1

def rect(rng, big=False):
    return (rng.randint(0, 3), rng.randint(0, 6), rng.randint(1, 5), rng.randint(1, 10))

def act_token(kind, w): return "%s%d" % (kind, w)

def gen_tree_history(rng, with_handlers, foreign):
    """one lifecycle history; the application model here is deliberately simple: it only avoids what the
    harness would skip anyway most of the time, the harness and the model decide"""
    L, C = rng.choice([(10, 20), (6, 12), (4, 8), (12, 30)])
    emit("new %d %d" % (L, C))
    nw = 1
    parent = {0: None}
    alive_guess = {0}
    closed = set()
    refs = {0: 1}
    nwin = rng.randint(1, 6)
    shape = rng.choice(["chain", "star", "mixed", "mixed"])
    for i in range(nwin):
        if shape == "chain": p = nw - 1 if nw - 1 < 4 else rng.randrange(nw)
        elif shape == "star": p = 0
        else: p = rng.randrange(nw)
        depth = 0; x = p
        while parent[x] is not None: x = parent[x]; depth += 1
        if depth >= 3: p = 0
        flags = rng.choice([0, 0, 0, 0, 1, 2, 4, 8, 8, 12, 3])
        t, l, n, c = rect(rng)
        emit("win %d %d %d %d %d %d" % (p, t, l, n, c, flags))
        parent[nw] = p; refs[nw] = 1; alive_guess.add(nw); nw += 1
    npens = 0
    bound = []   # (w, ev)
    def pick(kind="any"):
        """a window handle: mostly one the application believes usable"""
        if rng.random() < 0.08: return rng.randrange(nw + 1)
        cand = [w for w in range(nw) if w in alive_guess and refs.get(w, 0) > 0]
        if kind == "nonroot": cand = [w for w in cand if w != 0] or cand
        if kind == "open": cand = [w for w in cand if w not in closed] or cand
        return rng.choice(cand) if cand else rng.randrange(nw)
    def subtree(w):
        out = [w]
        for c in range(nw):
            if parent.get(c) == w: out += subtree(c)
        return out
    def chain_up(w):
        out = []
        while w is not None: out.append(w); w = parent[w]
        return out
    def guess_unref(w):
        refs[w] = refs.get(w, 0) - 1
        if refs[w] <= 0:
            for x in subtree(w): alive_guess.discard(x) if refs.get(x, 0) <= 1 or x == w else closed.add(x)
    nops = rng.randint(4, 16)
    if with_handlers:
        nb = rng.randint(1, 4)
        for _ in range(nb):
            w = pick("open")
            ev = rng.choice(["key", "key", "mouse"])
            ret = rng.choice([0, 0, 1])
            acts = []
            for _ in range(rng.randint(0, 3)):
                r = rng.random()
                own = rng.choice(chain_up(w)) if w < nw else 0
                if rng.random() < 0.6: own = w
                tgt = rng.randrange(nw) if foreign else own
                if r < 0.40: acts.append(act_token("u", tgt))
                elif r < 0.60: acts.append(act_token("c", tgt))
                elif r < 0.68: acts.append(act_token("r", tgt))
                elif r < 0.80: acts.append(act_token(rng.choice("RFLB"), rng.randrange(nw) if rng.random() < 0.5 else tgt))
                elif r < 0.88: acts.append(act_token(rng.choice("hs"), tgt))
                elif r < 0.94: acts.append("f")
                else: acts.append("x")
            if ev == "mouse" and ret == 1:
                # a claiming mouse handler that drops two windows can make a dying parent take the reference
                # _handle_mouse returns for the claim (known finding cascade_steals_claim): only the corpus probe does
                seen = False
                kept = []
                for x in acts:
                    if x[0] == "u":
                        if seen: continue
                        seen = True
                    kept.append(x)
                acts = kept
            emit("bind %d %s %d %s" % (w, ev, ret, " ".join(acts)) if acts else "bind %d %s %d" % (w, ev, ret))
            bound.append(w)
    for _ in range(nops):
        r = rng.random()
        if r < 0.16:
            w = pick("nonroot"); emit("unref %d" % w); guess_unref(w) if w < nw else None
        elif r < 0.24:
            w = pick(); emit("ref %d" % w); refs[w] = refs.get(w, 0) + 1
        elif r < 0.34:
            w = pick("nonroot"); emit("close %d" % w); closed.add(w)
        elif r < 0.52:
            emit("%s %d" % (rng.choice(["raise", "raisefront", "lower", "lowerback"]), pick("nonroot")))
        elif r < 0.62:
            emit("flush")
        elif r < 0.67:
            emit("%s %d" % (rng.choice(["hide", "show"]), pick()))
        elif r < 0.71:
            emit("focus %d" % pick("open"))
        elif r < 0.74:
            t, l, n, c = rect(rng); emit("geom %d %d %d %d %d" % (pick("nonroot"), t, l, n, c))
        elif r < 0.77:
            emit("expose %d" % pick())
        elif r < 0.80 and nw < 10:
            p = pick("open"); t, l, n, c = rect(rng)
            emit("win %d %d %d %d %d %d" % (p, t, l, n, c, rng.choice([0, 0, 2, 8])))
            if p < nw: parent[nw] = p; refs[nw] = 1; alive_guess.add(nw); nw += 1
        elif r < 0.84:
            if npens == 0 or rng.random() < 0.3:
                emit("pen"); npens += 1
            else:
                emit("setpen %d %s" % (pick("open"), rng.choice(["-"] + [str(k) for k in range(npens)])))
        elif r < 0.86 and npens:
            emit("%s %d" % (rng.choice(["punref", "pref", "punref"]), rng.randrange(npens)))
        elif r < 0.88:
            emit(rng.choice(["tunref", "tref", "tunref"]))
        elif r < 0.90:
            emit("unref 0"); guess_unref(0)
        elif with_handlers and r < 0.97:
            if rng.random() < 0.5: emit("key")
            else:
                emit("mouse %d %d %d %d" % (rng.choice([1, 1, 2, 2, 3, 3, 4]), rng.choice([1, 1, 2]), rng.randint(0, L - 1), rng.randint(0, C - 1)))
        elif r < 0.93:
            emit("key")
        else:
            emit("mouse %d 1 %d %d" % (rng.choice([1, 2, 3]), rng.randint(0, L - 1), rng.randint(0, C - 1)))
    if rng.random() < 0.3: emit("flush")
    emit("end")

def gen_drag_history(rng):
    """drag gestures aimed at a window: root > panel > handle (> grip), every window's position known to the generator, so
    that PRESS / DRAG land on the chosen window and DRAG_START reaches its handler.  The handler (bound before the press
    or between the press and the first drag, so that DRAG_START is the first event it sees) closes, hides, drops or
    restacks its own window or one of its ancestors and claims the event or not; afterwards, outside any handler, the
    application drops or closes windows of the chain (the drag source, its parent, its grandparent) in every order, then
    further DRAG reports (inside the source, elsewhere, outside every window) and the RELEASE arrive."""
    L, C = rng.choice([(10, 20), (12, 30), (8, 16)])
    emit("new %d %d" % (L, C))
    depth = rng.choice([1, 2, 2, 2, 3, 3])
    # window k+1 is a child of window k; absolute position of each
    absr = {0: (0, 0, L, C)}
    chain = [0]
    t, l, n, c = rng.randint(0, 2), rng.randint(0, 3), rng.randint(5, L - 2), rng.randint(8, C - 3)
    for d in range(depth):
        pt, pl, pn, pc = absr[chain[-1]]
        if d > 0:
            t, l = rng.randint(0, 1), rng.randint(0, 2)
            n, c = max(1, pn - t - rng.randint(0, 1)), max(2, pc - l - rng.randint(0, 2))
        emit("win %d %d %d %d %d %d" % (chain[-1], t, l, n, c, rng.choice([0, 0, 0, 0, 2, 8])))
        w = len(absr)
        absr[w] = (pt + t, pl + l, min(n, pn - t), min(c, pc - l))
        chain.append(w)
    nw = len(absr)
    # a sibling or two somewhere (not covering the chain's last window: lowest, or elsewhere)
    for _ in range(rng.choice([0, 0, 1, 2])):
        p = rng.choice(chain[:-1])
        emit("win %d %d %d %d %d 2" % (p, rng.randint(0, 3), rng.randint(0, 6), rng.randint(1, 3), rng.randint(1, 6))); nw += 1
    src = chain[-1] if rng.random() < 0.8 else rng.choice(chain[1:])
    st, sl, sn, sc = absr[src]
    # a cell of the source that no deeper window of the chain covers: its last line / column when it has a child
    deeper = [w for w in chain if w > src]
    def inside():
        if deeper:
            dt, dl, dn, dc = absr[deeper[0]]
            cand = [(y, x) for y in range(st, st + sn) for x in range(sl, sl + sc) if not (dt <= y < dt + dn and dl <= x < dl + dc)]
            if cand: return rng.choice(cand)
        return (rng.randint(st, st + sn - 1), rng.randint(sl, sl + sc - 1))
    def anywhere(): return (rng.randint(0, L - 1), rng.randint(0, C - 1))
    ups = [w for w in chain if w < src and w != 0]          # proper ancestors below the root window
    def hacts():
        acts = []
        for _ in range(rng.choice([1, 1, 1, 2, 2, 3])):
            r = rng.random()
            tgt = rng.choice(ups) if ups and rng.random() < 0.65 else (src if rng.random() < 0.8 else rng.choice(chain))
            if r < 0.50: acts.append("c%d" % tgt)
            elif r < 0.62: acts.append("u%d" % tgt)
            elif r < 0.72: acts.append("h%d" % tgt)
            elif r < 0.80: acts.append("r%d" % tgt)
            elif r < 0.88: acts.append("%s%d" % (rng.choice("RFLB"), tgt))
            elif r < 0.94: acts.append("f")
            else: acts.append("x")
        return acts
    def bind(w):
        ret = rng.choice([1, 1, 1, 0])
        acts = hacts()
        if ret == 1:
            # known finding cascade_steals_claim: a claiming mouse handler drops at most one window
            seen = False; kept = []
            for x in acts:
                if x[0] == "u":
                    if seen: continue
                    seen = True
                kept.append(x)
            acts = kept
        emit(("bind %d mouse %d %s" % (w, ret, " ".join(acts))).strip())
    nbound = {}
    early = rng.random() < 0.35
    two_stage = rng.random() < 0.3       # the source claims DRAG_START quietly; what it does later is bound afterwards
    def bind_src():
        nbound[src] = nbound.get(src, 0) + 1
        if two_stage: emit("bind %d mouse 1" % src)
        else: bind(src)
    if early: bind_src()
    if rng.random() < 0.25:
        w = rng.choice(chain); emit("bind %d mouse 0" % w); nbound[w] = nbound.get(w, 0) + 1
    py, px = inside()
    emit("mouse 1 1 %d %d" % (py, px))
    if not early: bind_src()
    src_id = nbound[src]
    if rng.random() < 0.2: emit("flush")
    y, x = inside() if rng.random() < 0.7 else anywhere()
    emit("mouse 2 1 %d %d" % (y, x))                       # DRAG_START at the press position, then the DRAG itself
    if two_stage:
        # the handler that sees DRAG / DRAG_OUTSIDE / DRAG_DROP / DRAG_STOP (on_term_mouse dispatches the last ones straight to
        # the drag source: no frame holds its ancestors)
        if rng.random() < 0.8: emit("unbind %d %d" % (src, src_id))
        ret = rng.choice([0, 0, 1])
        acts = hacts()
        # known findings cascade_steals_claim / cascade_steals_drag_frame: a handler that drops its own window and then a
        # window above it makes the dying parent take the reference an internal frame holds: only the corpus probes do that
        seen = False; kept = []
        for a in acts:
            if a[0] == "u":
                if seen: continue
                seen = True
            kept.append(a)
        emit(("bind %d mouse %d %s" % (src, ret, " ".join(kept))).strip())
    # outside any handler: the application lets go of windows of the chain
    order = [w for w in chain if w != 0]
    rng.shuffle(order)
    for w in order[:rng.choice([0, 1, 1, 2, 3])]:
        r = rng.random()
        if r < 0.70: emit("unref %d" % w)
        elif r < 0.85: emit("close %d" % w)
        else: emit("ref %d" % w); emit("unref %d" % w)
    if rng.random() < 0.3: emit("flush")
    for _ in range(rng.choice([0, 1, 1, 2, 3])):
        y, x = inside() if rng.random() < 0.5 else anywhere()
        emit("mouse 2 1 %d %d" % (y, x))
        if rng.random() < 0.15:
            w = rng.choice(order); emit("%s %d" % (rng.choice(["unref", "close"]), w))
    if rng.random() < 0.85:
        y, x = inside() if rng.random() < 0.5 else anywhere()
        emit("mouse 3 1 %d %d" % (y, x))
    if rng.random() < 0.3:
        # a second gesture on what is left
        y, x = anywhere(); emit("mouse 1 1 %d %d" % (y, x)); emit("mouse 2 1 %d %d" % anywhere())
        if rng.random() < 0.5: emit("unref %d" % rng.choice(order))
        emit("mouse 3 1 %d %d" % anywhere())
    if rng.random() < 0.3: emit("flush")
    emit("end")

def gen_keychain_history(rng):
    """key dispatch along the focus chain root > ... > field with the focus on the leaf: key handlers on windows of the chain
    (and a sibling) hide / show / close / drop windows of the chain and let the key pass or keep it; afterwards the application
    closes and drops everything in some order (a reference the dispatch forgot shows as a window that never dies)"""
    emit("new 10 20")
    depth = rng.randint(2, 4)
    parent = {0: None}
    nw = 1
    for d in range(depth):
        emit("win %d %d %d %d %d %d" % (nw - 1, rng.randint(0, 1), rng.randint(0, 1), 8 - 2 * d, 16 - 3 * d, rng.choice([0, 0, 0, 1])))
        parent[nw] = nw - 1; nw += 1
    leaf = nw - 1
    if rng.random() < 0.5:
        p = rng.randrange(0, leaf)
        emit("win %d 0 0 2 3 0" % p); parent[nw] = p; nw += 1
    emit("focus %d" % leaf)
    chain = list(range(1, leaf + 1))
    for _ in range(rng.randint(1, 3)):
        w = rng.choice(chain + [leaf, leaf])
        acts = []
        for _ in range(rng.randint(1, 2)):
            r = rng.random(); tgt = rng.choice(chain)
            if r < 0.5: acts.append("h%d" % tgt)
            elif r < 0.62: acts.append("s%d" % tgt)
            elif r < 0.74: acts.append("c%d" % tgt)
            elif r < 0.82: acts.append("r%d" % tgt)
            elif r < 0.92: acts.append("%s%d" % (rng.choice("RFLB"), rng.randrange(1, nw)))
            else: acts.append("x")
        emit("bind %d key %d %s" % (w, rng.choice([0, 0, 0, 1]), " ".join(acts)))
    for _ in range(rng.randint(1, 4)):
        r = rng.random()
        if r < 0.6: emit("key")
        elif r < 0.75: emit("%s %d" % (rng.choice(["show", "hide"]), rng.choice(chain)))
        elif r < 0.85: emit("focus %d" % rng.choice(chain))
        else: emit("flush")
    order = list(range(1, nw)); rng.shuffle(order)
    for w in order:
        if rng.random() < 0.5: emit("close %d" % w)
        emit("unref %d" % w)
        if rng.random() < 0.3: emit("unref %d" % w)
    if rng.random() < 0.5: emit("flush")
    emit("end")

def gen_iowatch_history(rng):
    """I/O watches of the toplevel instance on descriptors that are readable in the same poll turn, their callbacks registering
    further watches (past the capacity of the event loop's slot tables, 4 at first, then 8, 16 ...), cancelling watches (slots
    are reused) and themselves; ticks with and without terminal input in between"""
    emit("newtop 4 8")
    nio = 0
    def iacts():
        out = []
        for _ in range(rng.randint(0, 5)):
            r = rng.random()
            if r < 0.65: out.append("i%d" % rng.choice([1, 1, 0]))
            elif r < 0.85: out.append("k%d" % rng.randrange(0, nio + 4))
            else: out.append("x")
        return out
    for _ in range(rng.randint(3, 12)):
        r = rng.random()
        if r < 0.4:
            emit(("iio %d %s" % (rng.choice([1, 1, 1, 0]), " ".join(iacts()))).strip()); nio += 1
        elif r < 0.75:
            emit(rng.choice(["itick", "itick", "itick a", "itick U"])); nio += 3
        elif r < 0.85: emit("iiocancel %d" % rng.randrange(0, nio + 2))
        elif r < 0.9: emit("ilater u0")
        elif r < 0.95: emit("itimer 0 l")
        else: emit(rng.choice(["iref", "tick 60", "flush"]))
    emit("itick")
    if rng.random() < 0.5: emit("unref 0"); emit("iunref")
    emit("end")

def gen_widerb_history(rng):
    """render buffers wider than the scratch block holds box-drawing characters for (256 bytes: 85 of them): long runs of LINE
    cells, broken or not by other content, flushed to the terminal"""
    C = rng.choice([90, 100, 120, 180, 200, 300])
    emit(rng.choice(["new 3 %d", "new 3 %d", "newmock 3 %d"]) % C)
    L = rng.randint(1, 3)
    emit("rb %d %d" % (L, C))
    for _ in range(rng.randint(1, 3)):
        for _ in range(rng.randint(1, 4)):
            r = rng.random(); line = rng.randrange(L)
            if r < 0.6:
                a = rng.randint(0, C // 4); b = rng.randint(a + 1, C - 1) if rng.random() < 0.3 else rng.randint(max(a + 1, C - 20), C - 1)
                emit("bhline 0 %d %d %d" % (line, a, b))
            elif r < 0.75: emit("btext 0 %d %d %s" % (line, rng.randrange(C), "61" * rng.randint(1, 4)))
            elif r < 0.85: emit("berase 0 %d %d %d" % (line, rng.randrange(C), rng.randint(1, 5)))
            elif r < 0.95: emit("bchar 0 %d %d %d" % (line, rng.randrange(C), rng.choice([0x41, 0xe9])))
            else: emit("btextf 0 %d 0 %s" % (line, "62" * rng.randint(60, 300)))
        emit("bflush 0")
    emit("end")

def gen_kids_history(rng, k=None, ns=None):
    """tickit_window_get_children into arrays shorter than, as long as and longer than the list of children (0 included),
    on the root and on a nested window, between restacking, closing and dropping children"""
    emit(rng.choice(["new 8 20", "newmock 8 20"]))
    if k is None: k = rng.randint(0, 6)
    for i in range(k): emit("win 0 %d 0 1 5 %d" % (i, rng.choice([0, 0, 0, 1, 2])))
    sub = 0
    if k and rng.random() < 0.5:
        sub = rng.randint(1, 3)
        for i in range(sub): emit("win 1 0 %d 1 1 0" % i)
    nw = 1 + k + sub
    if ns is not None:
        for n in ns: emit("kids 0 %d" % n)
    else:
        for _ in range(rng.randint(2, 8)):
            r = rng.random()
            if r < 0.6:
                w = rng.choice([0, 0, 0, 1, rng.randrange(nw)])
                cnt = k if w == 0 else sub if w == 1 else 0
                emit("kids %d %d" % (w, rng.choice([0, max(cnt - 1, 0), cnt, cnt + 1, rng.randint(0, cnt + 2)])))
            elif r < 0.75 and nw > 1: emit("%s %d" % (rng.choice(["raise", "raisefront", "lower", "lowerback"]), rng.randrange(1, nw)))
            elif r < 0.85 and nw > 1: emit("unref %d" % rng.randrange(1, nw))
            elif r < 0.92 and nw > 1: emit("close %d" % rng.randrange(1, nw))
            else: emit("flush")
    emit("end")

def gen_procwatch_history(rng, ops=None):
    """process watches of the toplevel instance (default event loop) on children that have exited already (delivery deferred
    to the next loop turn) or are still running: cancelled before or after the turn, left to fire, dropped with the instance"""
    emit("newtop 4 8")
    if ops is None:
        ops = []; n = 0
        for _ in range(rng.randint(2, 7)):
            r = rng.random()
            if r < 0.35 and n < 5: ops.append("iproc %d" % rng.choice([1, 1, 0])); n += 1
            elif r < 0.60 and n: ops.append("iproccancel %d" % rng.randrange(n))
            elif r < 0.85: ops.append("itick")
            elif r < 0.93: ops.append("ilater")
            else: ops.append("itimer 0")
        ops.append("itick")
    for o in ops: emit(o)
    if rng.random() < 0.5: emit("unref 0"); emit("iunref")
    emit("end")

TEXTF_LENS = list(range(250, 261)) + list(range(510, 515)) + list(range(1022, 1027))
def gen_textf_history(rng, n, pre):
    """tickit_renderbuffer_textf_at whose formatted text is as long as the scratch block (256 bytes at first, doubled until it
    fits) or a byte or two off: on a fresh render buffer, or after shorter / longer texts grew the block"""
    emit("new 2 40"); emit("rb 1 40")
    for m in pre: emit("btextf 0 0 0 %s" % ("63" * m))
    emit("btextf 0 0 0 %s" % ("62" * n)); emit("bflush 0"); emit("btextf 0 0 3 %s" % ("64" * n)); emit("end")

def gen_timers_history(rng):
    """timers and deferred calls of the toplevel instance that register further timers and deferred calls while they run:
    tickit_watch_timer_at_tv for an instant of the harness's clock that has passed (it becomes the head of the queue the
    loop of tickit_evloop_invoke_timers is working on), that is the present, or that lies ahead; tickit_watch_later from a
    timer and from a deferred call; handlers bound on the terminal that do the same when a key arrives during tickit_tick;
    several ticks with the clock advanced in between; the instance dropped with such watches pending."""
    L, C = rng.choice([(6, 12), (4, 8)])
    emit("newtop %d %d" % (L, C))
    nw = 1
    for _ in range(rng.randint(0, 2)):
        emit("win %d %d %d %d %d 0" % ((rng.randrange(nw),) + rect(rng))); nw += 1
    now = 0
    def reg_acts(n):
        out = []
        for _ in range(n):
            r = rng.random()
            if r < 0.45: out.append("a%d" % rng.choice([0, 0, max(0, now - 10), now, now, now + 5, now + 50, now + 200]))
            elif r < 0.65: out.append("l")
            elif r < 0.75 and nw > 1: out.append("%s%d" % (rng.choice("ucr"), rng.randrange(1, nw)))
            elif r < 0.85: out.append(rng.choice(["t", "T"]))
            else: out.append("f")
        return out
    if rng.random() < 0.4:
        emit(("tbind key %d %s" % (rng.choice([0, 1]), " ".join(reg_acts(rng.randint(1, 3))))).strip())
    inst = 1
    for _ in range(rng.randint(4, 12)):
        r = rng.random()
        if r < 0.30: emit(("itimer %d %s" % (rng.choice([0, 0, 10, 50]), " ".join(reg_acts(rng.randint(1, 4))))).strip())
        elif r < 0.42: emit(("itimerat %d %s" % (rng.choice([0, max(0, now - 20), now, now + 30]), " ".join(reg_acts(rng.randint(0, 3))))).strip())
        elif r < 0.55: emit(("ilater " + " ".join(reg_acts(rng.randint(1, 3)))).strip())
        elif r < 0.80: emit("itick" + (" a" if rng.random() < 0.3 else ""))
        elif r < 0.90:
            d = rng.choice([5, 10, 50, 100]); emit("tick %d" % d); now += d
        elif r < 0.94: emit("icancel %d" % rng.randint(0, 6))
        elif r < 0.97: emit("iref"); inst += 1
        else: emit("key")
    if rng.random() < 0.7: emit("itick")
    if rng.random() < 0.5:
        emit("unref 0")
        for _ in range(inst): emit("iunref")
    emit("end")

ASCII = [0x41 + i for i in range(26)] + [0x20, 0x61, 0x7e]

PEN_ATTRS = ["fg", "bg", "b", "u", "i", "rv", "strike", "af", "blink", "sizepos"]
def rand_colour(rng, rich):
    r = rng.random()
    if r < 0.08: idx = -1
    elif r < 0.30: idx = rng.choice([0, 1, 7, 8, 9, 15])
    else: idx = rng.choice([16, 17, 100, 200, 231, 254, 255])
    if idx >= 0 and rng.random() < (0.9 if rich else 0.35):
        return "%d#%02x%02x%02x" % (idx, rng.randrange(256), rng.randrange(256), rng.randrange(256))
    return "%d" % idx
def rand_pen(rng, rich):
    """a pen description in the notation of harness/sgr.c; `rich`: (nearly) every attribute present, both colours with an
    RGB8 secondary, a styled underline - what needs the most SGR parameters"""
    if not rich and rng.random() < 0.08: return "-"
    out = []
    for a in PEN_ATTRS:
        if rng.random() > (0.93 if rich else 0.45): continue
        if a in ("fg", "bg"): v = rand_colour(rng, rich)
        elif a == "u": v = str(rng.choice([2, 3, 3, 1] if rich else [0, 1, 2, 3]))
        elif a == "af": v = str(rng.choice([1, 2, 5, 9] if rich else [-1, 0, 1, 3, 9]))
        elif a == "sizepos": v = str(rng.choice([2, 3] if rich else [0, 2, 3]))
        else: v = str(1 if rich else rng.choice([0, 1, 1]))
        out.append("%s=%s" % (a, v))
    return ",".join(out) or "-"

def gen_termout_history(rng):
    """the output side of the main terminal through the real xterm driver: tickit_term_set_output_buffer (installed, grown,
    shrunk below what is pending, to one byte, removed) with output pending from tickit_term_printn / _goto / _setpen,
    flushed or not; the driver's capabilities switched on by the DECRQSS reply or the xterm.cap_rgb8 control;
    tickit_term_setpen / _chpen with pens of every attribute (both colours RGB8, styled underline: 19 SGR parameters) -
    next to quiet lifecycle operations (windows, pens, references) that reach no driver."""
    kind = rng.choice(["new", "new", "new", "newin"])
    emit("%s %d %d" % (kind, rng.choice([6, 10]), rng.choice([12, 20])))
    nw = 1; npens = 0; trefs = 1
    if rng.random() < 0.75:
        emit("tcaps %d %d %s" % (rng.choice([1, 1, 1, 0]), rng.choice([1, 1, 0]), rng.choice(["reply", "reply", "ctl"])))
    buflen = 0; pending = 0
    def text(n=None):
        n = n if n is not None else rng.choice([1, 2, 5, 8, 13, 26, 40, 70])
        return "".join("%02x" % rng.choice(ASCII) for _ in range(n))
    for _ in range(rng.randint(5, 18)):
        r = rng.random()
        if r < 0.20:
            # a buffer: around what is pending (smaller, equal, one more), tiny, roomy, or none
            cand = [0, 1, 2, 8, 16, 64, 256]
            if pending: cand += [max(1, pending - 1), pending, pending + 1, max(1, pending // 2), max(1, pending - 1), 1]
            buflen = rng.choice(cand); emit("tbuf %d" % buflen); pending = 0
        elif r < 0.40:
            n = rng.choice([1, 2, 5, 8, 13, 26, 40, 70]); emit("tprint %s" % text(n))
            pending = (pending + n) % buflen if buflen else 0
        elif r < 0.48:
            emit("tgoto %d %d" % (rng.randint(0, 9), rng.randint(0, 19))); pending = pending + 6 if buflen else 0
        elif r < 0.58: emit("tflush"); pending = 0
        elif r < 0.80:
            rich = rng.random() < 0.6
            emit("%s %s" % (rng.choice(["tsetpen", "tsetpen", "tchpen"]), rand_pen(rng, rich)))
            if buflen: pending += 30
        elif r < 0.84:
            emit("tcaps %d %d %s" % (rng.choice([1, 0]), rng.choice([1, 0]), rng.choice(["reply", "ctl", "ctl"])))
        elif r < 0.88:
            emit("win %d %d %d %d %d 0" % ((rng.randrange(nw),) + rect(rng))); nw += 1
        elif r < 0.91 and nw > 1: emit("%s %d" % (rng.choice(["unref", "close", "ref", "raise", "hide"]), rng.randrange(1, nw)))
        elif r < 0.94:
            if npens == 0 or rng.random() < 0.5: emit("pen"); npens += 1
            else:
                k = rng.choice(["pref", "punref", "pset"]); emit("%s %d%s" % (k, rng.randrange(npens), " 3" if k == "pset" else ""))
        elif r < 0.97: emit(rng.choice(["tref", "tunref", "tref"]))
        else: emit("tick %d" % rng.choice([10, 60]))
    if rng.random() < 0.3: emit("tflush")
    emit("end")

def rand_text(rng, maxchars=8):
    out = []
    for _ in range(rng.randint(0, maxchars)):
        if rng.random() < 0.7: out.append("%02x" % rng.choice(ASCII))
        else:
            cp = rng.choice(list(range(0xa1, 0xad)) + list(range(0xae, 0x100)))
            out.append("%02x%02x" % (0xc0 | (cp >> 6), 0x80 | (cp & 0x3f)))
    return "".join(out) or "-"

BAD_ELEMS = ["01", "09", "0a", "1b", "1f", "7f", "80", "9f", "bf", "f8", "ff", "c280", "c29f", "c285"]
BAD_TAILS = ["c2", "c3", "e2", "e282", "f0", "f09f", "f09f98"]      # truncated sequences: only at the very end
def bad_text(rng):
    """a text put_string rejects (tickit_utf8_ncount returns -1): a control character, a byte that cannot lead a
    sequence, a C1 control, or a truncated multi-byte sequence, after a prefix of ordinary characters"""
    pre = rand_text(rng, 5); pre = "" if pre == "-" else pre
    if rng.random() < 0.35: return pre + rng.choice(BAD_TAILS)
    suf = rand_text(rng, 3); suf = "" if suf == "-" else suf
    return pre + rng.choice(BAD_ELEMS) + suf
def text_op(rng): return rng.choice(["btext", "btext", "btextf", "btextc"])
def long_text(rng):
    """more than the 64 bytes put_vtextf keeps on the stack"""
    return "".join("%02x" % rng.choice(ASCII) for _ in range(rng.randint(62, 70)))

def gen_objects_history(rng):
    emit("new 6 12")
    nw = 1; npens = 0; nstr = 0; nrb = 0
    for _ in range(rng.randint(0, 3)):
        emit("win %d %d %d %d %d 0" % ((rng.randrange(nw),) + rect(rng))); nw += 1
    for _ in range(rng.randint(6, 22)):
        r = rng.random()
        if r < 0.12: emit("pen"); npens += 1
        elif r < 0.22 and npens: emit("setpen %d %s" % (rng.randrange(nw), rng.choice(["-"] + [str(k) for k in range(npens)])))
        elif r < 0.32 and npens:
            k = rng.choice(["punref", "punref", "pref", "pset"])
            emit("%s %d%s" % (k, rng.randrange(npens), " 3" if k == "pset" else ""))
        elif r < 0.38: emit("str " + rand_text(rng)); nstr += 1
        elif r < 0.46 and nstr: emit("%s %d" % (rng.choice(["sref", "sunref", "sunref", "sget"]), rng.randrange(nstr)))
        elif r < 0.52: emit("rb %d %d" % (rng.randint(1, 3), rng.randint(1, 10))); nrb += 1
        elif r < 0.60 and nrb: emit("%s %d" % (rng.choice(["bref", "bunref", "bunref", "bclear", "breset", "bsave", "bsavepen", "brestore", "brestore", "bflush"]), rng.randrange(nrb)))
        elif r < 0.70 and nrb:
            q = rng.random()
            t = bad_text(rng) if q < 0.3 else long_text(rng) + (rng.choice(BAD_ELEMS) if rng.random() < 0.5 else "") if q < 0.36 else rand_text(rng)
            emit("%s %d %d %d %s" % (text_op(rng), rng.randrange(nrb), rng.randint(0, 2), rng.randint(-2, 9), t))
        elif r < 0.74 and nrb: emit("berase %d %d %d %d" % (rng.randrange(nrb), rng.randint(0, 2), rng.randint(-1, 9), rng.randint(1, 6)))
        elif r < 0.77 and nrb and npens: emit("bsetpen %d %s" % (rng.randrange(nrb), rng.choice(["-"] + [str(k) for k in range(npens)])))
        elif r < 0.82: emit("unref %d" % rng.randrange(nw))
        elif r < 0.86: emit(rng.choice(["tref", "tunref"]))
        elif r < 0.90: emit("flush")
        elif r < 0.93: emit("close %d" % rng.randrange(nw))
        else: emit("key")
    emit("end")

DESCS = ["red", "blue", "hi-green", "hi-white", "grey", "purple", "bl", "b", "magenta", "orange #ff8000", "pink#ffc0cb",
         "3", "7", "8", "255", "hi-3", "hi-7", "hi-8", "hi-9", "hi-12", "hi-200", "12#102030", "hi-1 #abcdef", "hi-9#000000",
         "#ff0000", "", "hi-", "junk", "blackx", "redd", "hi-junk", "x#112233", "white #12", "cyan#abcde", "yellow #1234"]

def hexs(t): return "".join("%02x" % b for b in t.encode()) or "-"

def gen_pens_history(rng):
    """pens with internal reference traffic: change handlers that drop or take references to the pen, freeze/thaw in
    set_colour_attr_desc (accepted and rejected descriptions), copy and copy_attr, pens shared with windows"""
    emit("new 6 12")
    nw = 1
    for _ in range(rng.randint(0, 2)):
        emit("win %d %d %d %d %d 0" % ((rng.randrange(nw),) + rect(rng))); nw += 1
    npens = rng.randint(1, 3)
    for _ in range(npens): emit("pen")
    for _ in range(rng.randint(0, 3)):
        k = rng.randrange(npens)
        acts = []
        for _ in range(rng.randint(0, 3)):
            # a handler drops or takes references to its own pen (dropping another pen that a running copy still
            # reads is the application's bug)
            acts.append(rng.choice(["q%d", "q%d", "Q%d"]) % k)
        emit(("pbind %d %s" % (k, " ".join(acts))).strip())
    for _ in range(rng.randint(5, 16)):
        r = rng.random(); k = rng.randrange(npens)
        if r < 0.30: emit("pdesc %d %s" % (k, hexs(rng.choice(DESCS))))
        elif r < 0.42: emit("pset %d %d" % (k, rng.choice([0, 1, 7, 8, 200, 255])))
        elif r < 0.57: emit("pcopy %d %d %d" % (k, rng.randrange(npens), rng.randint(0, 1)))
        elif r < 0.67: emit("pcopyattr %d %d" % (k, rng.randrange(npens)))
        elif r < 0.75: emit("%s %d" % (rng.choice(["pref", "punref", "punref"]), k))
        elif r < 0.83: emit("setpen %d %s" % (rng.randrange(nw), rng.choice(["-", str(k)])))
        elif r < 0.88: emit("punbind %d %d" % (k, rng.randint(1, 2)))
        elif r < 0.92 and npens < 5: emit("pen"); npens += 1
        elif r < 0.96: emit("unref %d" % rng.randrange(nw))
        else: emit("pbind %d q%d" % (k, k))
    emit("end")

# grapheme clusters for the mock terminal: (bytes, columns).  One cell holds one cluster; a double-width cluster
# leaves its second cell empty (NULL string).
CLUSTERS = [("41", 1), ("7a", 1), ("20", 1), ("c3a9", 1), ("c2a1", 1), ("e282ac", 1), ("e4b8ad", 2), ("efbca1", 2), ("f09f9880", 2),
            ("f0a08080", 2), ("65cc81", 1), ("41cc81cc88", 1), ("e4b8adcc81", 2), ("78e2808b", 1)]
def mock_print(scr, L, C, line, col, clusters):
    """mtd_goto_abs + mtd_print on the generator's copy of the screen (only used to steer clear of the known
    exact-fill overflow; the Lean model decides what the display holds)"""
    line = min(max(line, 0), L - 1); cur = min(max(col, 0), C - 1)
    for hx, w in clusters:
        sc = cur
        if sc >= C:
            sc = 0
            if line < L - 1: line += 1
        scr[line][sc] = hx
        for k in range(sc + 1, min(cur + w, C)): scr[line][k] = None
        cur += w
def mock_disp_exact_fill(scr, line, col, width, ln):
    """does tickit_mockterm_get_display_text copy a cell that exactly fills what is left (terminator at buffer[len])?"""
    if ln <= 0: return False
    rem = ln
    for c in range(col, col + width):
        n = len(scr[line][c]) // 2 if scr[line][c] else 0
        if n and rem >= n:
            rem -= n
            if rem == 0: return True
    return False
def mock_lens(scr, line, col, width):
    """buffer lengths for a span: (safe lengths that end inside a cell of several bytes, other safe lengths)"""
    sizes = [len(scr[line][c]) // 2 if scr[line][c] else 0 for c in range(col, col + width)]
    total = sum(sizes)
    inside, other = [], []
    for ln in range(1, total + 3):
        if mock_disp_exact_fill(scr, line, col, width, ln): continue
        # replay the walk: is some cell of several bytes refused because only part of it would fit?
        rem, cut = ln, False
        for n in sizes:
            if n and rem >= n: rem -= n
            elif n > 1 and rem > 0: cut = True
        (inside if cut else other).append(ln)
    return inside, other

def gen_mock_content_history(rng, lens_all=False):
    Lm, Cm = rng.randint(1, 3), rng.randint(2, 9)
    emit("newmock %d %d" % (Lm, Cm))
    scr = [["20"] * Cm for _ in range(Lm)]
    for _ in range(rng.randint(1, 4)):
        line = rng.randrange(Lm); col = rng.randrange(Cm) if rng.random() < 0.6 else 0
        cl = []; used = col
        for _ in range(rng.randint(1, Cm)):
            c = rng.choice(CLUSTERS) if rng.random() < 0.75 else ("%02x" % rng.choice(ASCII), 1)
            # mostly inside the line; now and then up to and over the right edge (wrap, wide character cut by the edge)
            if used + c[1] > Cm and rng.random() < 0.85: break
            cl.append(c); used += c[1]
        if not cl: cl = [rng.choice(CLUSTERS[:6])]
        emit("mprint %d %d %s" % (line, col, "".join(h for h, _ in cl)))
        mock_print(scr, Lm, Cm, line, col, cl)
    for _ in range(rng.randint(2, 8)):
        line = rng.randrange(Lm); col = rng.randrange(Cm); width = rng.randint(1, Cm - col)
        if rng.random() < 0.5: col, width = 0, Cm
        inside, other = mock_lens(scr, line, col, width)
        # a length <= width overflows by one on an empty screen (known finding mockterm_display_text): when a failing
        # history is shrunk it turns into that probe, so most lengths are larger than the width
        big = lambda l: [x for x in l if x > width] or l
        r = rng.random()
        if r < 0.08: ln = rng.choice([-1, 0])
        elif r < 0.70 and inside: ln = rng.choice(big(inside) if rng.random() < 0.85 else inside)
        elif other: ln = rng.choice(big(other) if rng.random() < 0.85 else other)
        else: ln = 0
        emit("mdisp %d %d %d %d" % (ln, line, col, width))
    if rng.random() < 0.3: emit("tref")
    emit("end")

def gen_copyout_history(rng):
    if rng.random() < 0.3:
        if rng.random() < 0.65: return gen_mock_content_history(rng)
        Lm, Cm = rng.randint(1, 3), rng.randint(2, 8)
        emit("newmock %d %d" % (Lm, Cm))
        for _ in range(rng.randint(1, 6)):
            line = rng.randrange(Lm); col = rng.randrange(Cm); width = rng.randint(0, Cm - col)
            # 1 <= len <= width makes strcpy put its terminator at buffer[len] (known finding mockterm_display_text):
            # only the corpus probe does that
            ln = rng.choice([-1, 0, 0, width + 1, width + 1, width + 3, width + 2])
            emit("mdisp %d %d %d %d" % (ln, line, col, width))
        emit("end"); return
    emit("new 4 8")
    L, C = rng.randint(1, 3), rng.randint(2, 10)
    emit("rb %d %d" % (L, C))
    spans = []   # (line, col, nbytes-ish) for targeting
    for _ in range(rng.randint(1, 7)):
        r = rng.random(); line = rng.randrange(L); col = rng.randint(-1, C - 1)
        if r < 0.55:
            t = bad_text(rng) if rng.random() < 0.2 else rand_text(rng, 7); emit("%s 0 %d %d %s" % (text_op(rng), line, col, t))
        elif r < 0.70: emit("berase 0 %d %d %d" % (line, col, rng.randint(1, 5)))
        elif r < 0.78: emit("bskip 0 %d %d %d" % (line, col, rng.randint(1, 4)))
        elif r < 0.90: emit("bchar 0 %d %d %d" % (line, col, rng.choice([0x41, 0xe9, 0x20ac, 0x4e2d, 0x1f600, 0x7e])))
        else:
            c1 = rng.randint(0, C - 1); emit("bhline 0 %d %d %d" % (line, c1, rng.randint(c1, C - 1)))
    for _ in range(rng.randint(2, 10)):
        line = rng.randrange(L); col = rng.randint(-1, C)
        ln = rng.choice([-1, 0, 1, 1, 2, 2, 3, 4, 5, 6, 8, 12])
        emit("%s 0 %d %d %d" % (rng.choice(["bcell", "bcell", "bspan"]), line, col, ln))
    emit("end")

def mock_resize(scr, nL, nC):
    """tickit_mockterm_resize on the generator's copy of the screen"""
    out = []
    for l in range(nL):
        row = []
        for c in range(nC):
            row.append(scr[l][c] if l < len(scr) and c < len(scr[l]) else "20")
        out.append(row)
    return out

def mock_random_print(rng, scr, Lm, Cm):
    line = rng.randrange(Lm); col = rng.randrange(Cm) if rng.random() < 0.6 else 0
    cl = []; used = col
    for _ in range(rng.randint(1, Cm)):
        c = rng.choice(CLUSTERS) if rng.random() < 0.6 else ("%02x" % rng.choice(ASCII), 1)
        if used + c[1] > Cm and rng.random() < 0.85: break
        cl.append(c); used += c[1]
    if not cl: cl = [rng.choice(CLUSTERS[:6])]
    emit("mprint %d %d %s" % (line, col, "".join(h for h, _ in cl)))
    mock_print(scr, Lm, Cm, line, col, cl)

def mock_random_disp(rng, scr, Lm, Cm, line=None):
    if line is None: line = rng.randrange(Lm)
    col = rng.randrange(Cm); width = rng.randint(1, Cm - col)
    if rng.random() < 0.6: col, width = 0, Cm
    inside, other = mock_lens(scr, line, col, width)
    big = lambda l: [x for x in l if x > width] or l
    cand = big(inside) + big(other)
    ln = rng.choice(cand) if cand and rng.random() < 0.9 else rng.choice([-1, 0])
    emit("mdisp %d %d %d %d" % (ln, line, col, width))

RESIZE_KINDS = ["shrink", "same", "grow"]
def resize_dim(rng, v, kind, hi):
    if kind == "shrink": return rng.randint(1, v - 1) if v > 1 else v
    if kind == "grow": return v + rng.randint(1, hi)
    return v

def gen_mockresize_history(rng, combo=None):
    """tickit_mockterm_resize: each call picks, per dimension, fewer / as many / more (all nine combinations equally often,
    `combo` forces the first), on a screen with printed cells in its last rows and columns"""
    Lm, Cm = rng.randint(1, 6), rng.randint(2, 12)
    emit("newmock %d %d" % (Lm, Cm))
    scr = [["20"] * Cm for _ in range(Lm)]
    nw = 1; has_root = True; known = True; printed = False
    for _ in range(rng.choice([0, 0, 0, 1, 2])):
        emit("win %d %d %d %d %d %d" % ((rng.randrange(nw),) + rect(rng) + (rng.choice([0, 0, 8]),))); nw += 1
    if rng.random() < 0.12:
        emit("tref"); emit("unref 0"); has_root = False     # the terminal without its root window
    for _ in range(rng.randint(1, 4)): mock_random_print(rng, scr, Lm, Cm); printed = True
    if rng.random() < 0.5:
        # content in the last line / up to the last column: what a resize drops
        emit("mprint %d %d %s" % (Lm - 1, max(0, Cm - 3), "414243")); mock_print(scr, Lm, Cm, Lm - 1, max(0, Cm - 3), [("41", 1), ("42", 1), ("43", 1)])
    for k in range(rng.randint(1, 5)):
        kl, kc = combo if (combo and k == 0) else (rng.choice(RESIZE_KINDS), rng.choice(RESIZE_KINDS))
        nL, nC = resize_dim(rng, Lm, kl, 4), resize_dim(rng, Cm, kc, 8)
        if nC < 2 and rng.random() < 0.7: nC = 2
        emit("mresize %d %d" % (nL, nC))
        resize_mix["%s-lines,%s-cols" % (kl, kc)] = resize_mix.get("%s-lines,%s-cols" % (kl, kc), 0) + 1
        scr = mock_resize(scr, nL, nC); Lm, Cm = nL, nC
        for _ in range(rng.randint(0, 3)):
            r = rng.random()
            if r < 0.5 and known: mock_random_disp(rng, scr, Lm, Cm, rng.choice([None, Lm - 1]))
            elif r < 0.75 and known: mock_random_print(rng, scr, Lm, Cm)
            elif r < 0.85:
                emit("flush")
                if has_root and printed: known = False       # the model does not follow what a flush draws
            elif r < 0.92 and has_root and nw < 6:
                emit("win %d %d %d %d %d 0" % ((rng.randrange(nw),) + rect(rng))); nw += 1
            elif r < 0.96 and has_root:
                emit("mouse 1 1 %d %d" % (rng.randint(0, Lm), rng.randint(0, Cm)))
                if printed: known = False
            elif has_root and nw > 1: emit("unref %d" % rng.randrange(1, nw))
    emit("end")

class WinchList:
    """the observer list as the unrepaired code keeps it (a terminal keeps its link when it stops observing): the
    generator uses it to know when observing again re-links a stale pointer (known finding sigwinch_stale_next)"""
    def __init__(self): self.first = None; self.next = {}; self.obs = set(); self.dead = set()
    def chain(self):
        out = []; c = self.first
        while c is not None and c not in out and c not in self.dead: out.append(c); c = self.next.get(c)
        return out
    def observe(self, t):
        if t in self.obs: return
        self.obs.add(t); ch = self.chain()
        if ch: self.next[ch[-1]] = t
        else: self.first = t
    def unobserve(self, t):
        if t not in self.obs: return
        self.obs.discard(t); ch = self.chain()
        if t in ch:
            i = ch.index(t)
            if i == 0: self.first = self.next.get(t)
            else: self.next[ch[i - 1]] = self.next.get(t)
    def stale(self, t): return t not in self.obs and self.next.get(t) is not None
    def destroy(self, t): self.unobserve(t); self.dead.add(t)

def gen_sigwinch_history(rng):
    kind = rng.choice(["new", "new", "newin", "newmock"])
    emit("%s 6 12" % kind)
    wl = WinchList(); nx = 0; xrefs = {}; main_alive = True; trefs = 1
    def live(): return [k for k in range(nx) if xrefs[k] > 0]
    for _ in range(rng.randint(2, 5)): emit("xnew"); xrefs[nx] = 1; nx += 1
    # mostly: everybody observes first, in a random order
    order = list(range(nx)) + ["t"]; rng.shuffle(order)
    for t in order:
        if rng.random() < 0.85:
            emit("tobs 1" if t == "t" else "xobs %d 1" % t); wl.observe(t)
    for _ in range(rng.randint(4, 14)):
        r = rng.random()
        if r < 0.22: emit("winch")
        elif r < 0.42:
            # a terminal goes away: mostly one that stands third or later in the list
            ch = [t for t in wl.chain() if t != "t"]
            late = [t for t in wl.chain()[2:] if t != "t"]
            cand = late if late and rng.random() < 0.7 else (ch or live())
            if not cand: continue
            t = rng.choice(cand)
            if xrefs[t] > 1 or rng.random() < 0.9:
                emit("xunref %d" % t); xrefs[t] -= 1
                if xrefs[t] == 0: wl.destroy(t)
        elif r < 0.56:
            # stop observing: any position
            ch = wl.chain()
            if not ch: continue
            t = rng.choice(ch[2:]) if len(ch) > 2 and rng.random() < 0.5 else rng.choice(ch)
            if t == "t" and not main_alive: continue
            emit("tobs 0" if t == "t" else "xobs %d 0" % t); wl.unobserve(t)
        elif r < 0.74:
            cand = [t for t in live() + (["t"] if main_alive else []) if t not in wl.obs]
            # observing again with a stale link: rarely (known finding sigwinch_stale_next on the unrepaired tree)
            cand = [t for t in cand if not wl.stale(t) or rng.random() < 0.06]
            if not cand: continue
            t = rng.choice(cand)
            emit("tobs 1" if t == "t" else "xobs %d 1" % t); wl.observe(t)
        elif r < 0.80 and nx < 7:
            emit("xnew"); xrefs[nx] = 1; nx += 1
            if rng.random() < 0.7: emit("xobs %d 1" % (nx - 1)); wl.observe(nx - 1)
        elif r < 0.84 and live():
            t = rng.choice(live()); emit("xref %d" % t); xrefs[t] += 1
        elif r < 0.90 and main_alive:
            # the main terminal goes: the application's references and the root window's
            if rng.random() < 0.5:
                for _ in range(trefs): emit("tunref")
                emit("unref 0")
            else:
                emit("unref 0")
                for _ in range(trefs): emit("tunref")
            main_alive = False; wl.destroy("t")
        elif r < 0.93 and main_alive: emit("tref"); trefs += 1
        elif r < 0.96 and kind == "newin": emit("tpush a")
        elif rng.random() < 0.5:
            # the same request again, or a handle that does not exist
            t = rng.randrange(nx + 1)
            if t < nx and xrefs[t] > 0: emit("xobs %d %d" % (t, 1 if t in wl.obs else 0))
            else: emit("xobs %d %d" % (t, rng.choice([0, 1])))
    emit("end")

def gen_terminput_history(rng):
    """the terminal's own bindings and input entry points (push_bytes, readable, wait_msec / wait_tv, check_timeout_msec,
    emit_key / emit_mouse) with handlers on the terminal and on windows that drop windows, the root and the terminal itself,
    lone ESC bytes resolved by the inter-byte timeout (clock advanced by `tick`) or by the next byte"""
    L, C = rng.choice([(6, 12), (4, 8), (10, 20)])
    has_fd = rng.random() < 0.8
    emit("%s %d %d" % ("newin" if has_fd else "new", L, C))
    nw = 1
    for _ in range(rng.randint(0, 3)):
        emit("win %d %d %d %d %d %d" % ((rng.randrange(nw),) + rect(rng) + (rng.choice([0, 0, 0, 8]),))); nw += 1
    def wacts(n):
        out = []
        for _ in range(n):
            r = rng.random(); w = rng.randrange(nw)
            if r < 0.35: out.append("u%d" % w)
            elif r < 0.50: out.append("c%d" % w)
            elif r < 0.58: out.append("r%d" % w)
            elif r < 0.70: out.append("%s%d" % (rng.choice("RFLB"), w))
            elif r < 0.78: out.append("%s%d" % (rng.choice("hs"), w))
            else: out.append("f")
        return out
    for _ in range(rng.randint(0, 2)):
        ev = rng.choice(["key", "key", "mouse"]); ret = rng.choice([0, 0, 1])
        acts = wacts(rng.randint(0, 2))
        if ev == "mouse" and ret == 1: acts = [x for i, x in enumerate(acts) if x[0] != "u" or i == 0][:1] + [x for x in acts[1:] if x[0] != "u"]
        emit(("bind %d %s %d %s" % (rng.randrange(nw), ev, ret, " ".join(acts))).strip())
    ntb = 0; trefs = 1
    quit_shape = rng.random() < 0.35
    if quit_shape:
        # the application quits from a key (or mouse) handler on the terminal: it drops its windows and the terminal there
        if rng.random() < 0.3: emit("tref"); trefs += 1
        acts = ["u%d" % w for w in (range(nw - 1, -1, -1) if rng.random() < 0.5 else range(nw))] if rng.random() < 0.8 else ["u0"]
        acts = acts[:6] + ["t"] * trefs
        if rng.random() < 0.25: rng.shuffle(acts)
        emit("tbind %s %d %s" % (rng.choice(["key", "key", "key", "mouse"]), rng.choice([0, 1]), " ".join(acts))); ntb += 1
    for _ in range(rng.randint(0, 2)):
        acts = wacts(rng.randint(0, 2)) + [rng.choice(["t", "t", "T"]) for _ in range(rng.randint(0, 2))]
        rng.shuffle(acts)
        emit(("tbind %s %d %s" % (rng.choice(["key", "mouse"]), rng.choice([0, 0, 1]), " ".join(acts))).strip()); ntb += 1
    pend = False
    def toks():
        nonlocal pend
        out = []
        n = rng.choice([0, 1, 1, 1, 2, 2, 3, 4])
        if pend:
            if n == 0 or rng.random() < 0.3: return out
            out.append("a"); pend = False; n -= 1
        for _ in range(n):
            r = rng.random()
            if r < 0.45: out.append(rng.choice(["a", "a", "A", "U"]))
            else: out.append("%s%d,%d" % (rng.choice("PPDDR"), rng.randint(0, L - 1), rng.randint(0, C - 1)))
        if rng.random() < (0.6 if quit_shape else 0.3): out.append("E"); pend = True
        return out
    for _ in range(rng.randint(4, 14)):
        r = rng.random()
        if pend and rng.random() < 0.4:
            # an ESC is waiting: let the inter-byte timeout turn it into the key Escape through one of the entry points
            q = rng.random()
            if q < 0.45:
                emit("tick %d" % rng.choice([50, 60, 1000])); emit("tcheck")
            elif q < 0.8:
                if rng.random() < 0.5: emit("tick %d" % rng.choice([20, 50, 70]))
                emit(rng.choice(["twait", "twaitv"]))
                if has_fd: pend = False
            else: emit("tcheck")
            continue
        if r < 0.22: emit(("tpush " + " ".join(toks())).strip())
        elif r < 0.34:
            was = pend
            emit(("tread " + " ".join(toks())).strip())
            if not has_fd: pend = was              # skipped: nothing reaches libtermkey
        elif r < 0.56:
            was = pend
            t = toks()
            if not t: pend = False                 # select() finds nothing: timedout() resolves the ESC
            if not has_fd: pend = was
            emit(("%s %s" % (rng.choice(["twait", "twait", "twaitv"]), " ".join(t))).strip())
        elif r < 0.66: emit("tcheck")
        elif r < 0.76: emit("tick %d" % rng.choice([10, 30, 50, 50, 60, 1000]))
        elif r < 0.80: emit("key")
        elif r < 0.84: emit("mouse %d 1 %d %d" % (rng.choice([1, 2, 3]), rng.randint(0, L - 1), rng.randint(0, C - 1)))
        elif r < 0.88: emit(rng.choice(["tunref", "tref", "tunref"]))
        elif r < 0.92: emit("%s %d" % (rng.choice(["unref", "unref", "close", "ref"]), rng.randrange(nw)))
        elif r < 0.95 and ntb: emit("tunbind %d" % rng.randint(3, 4 + ntb))
        elif r < 0.97: emit("flush")
        elif r < 0.975 and not pend:
            emit("tsetin")       # known finding set_input_fd_termkey on the unrepaired tree
        else:
            emit("tbind key %d %s" % (rng.choice([0, 1]), rng.choice(["t", "u0 t", "T", "c0"]))); ntb += 1
    emit("end")

def gen_toplevel_history(rng):
    """the toplevel instance (tickit_build for a terminal, tickit_get_rootwin / tickit_get_term with references of the
    application's own, tickit_ref / tickit_unref, tickit_watch_later / timer / cancel, tickit_tick) together with windows:
    the instance dropped while its root window still has children, with deferred calls pending, before or after the
    application's own references.  Handlers make no restacking requests (see Model/LifeTop.lean) and the last reference to
    the instance is not dropped while the application holds the root window (known finding rootwin_outlives_tickit)."""
    L, C = rng.choice([(6, 12), (4, 8), (10, 20)])
    emit("newtop %d %d" % (L, C))
    nw = 1; root_refs = 1; inst_refs = 1; nwatch = 0; ntb = 0
    parent = {0: None}
    for _ in range(rng.randint(0, 4)):
        p = rng.randrange(nw)
        d = 0; x = p
        while parent[x] is not None: x = parent[x]; d += 1
        if d >= 3: p = 0
        emit("win %d %d %d %d %d %d" % ((p,) + rect(rng) + (rng.choice([0, 0, 0, 1, 2, 8]),))); parent[nw] = p; nw += 1
    def nonroot(): return rng.randrange(1, nw) if nw > 1 else 1
    def hacts(n, term=True):
        out = []
        for _ in range(n):
            r = rng.random(); w = nonroot()
            if r < 0.35: out.append("u%d" % w)
            elif r < 0.50: out.append("c%d" % w)
            elif r < 0.60: out.append("r%d" % w)
            elif r < 0.72: out.append("%s%d" % (rng.choice("hs"), rng.randrange(nw)))
            elif r < 0.80: out.append("f")
            elif term: out.append(rng.choice(["t", "t", "T"]))
        return out
    for _ in range(rng.randint(0, 2)):
        emit(("bind %d %s %d %s" % (rng.randrange(nw), rng.choice(["key", "key", "mouse"]), 0, " ".join(hacts(rng.randint(0, 2), False)))).strip())
    for _ in range(rng.randint(0, 2)):
        emit(("tbind %s %d %s" % (rng.choice(["key", "mouse"]), rng.choice([0, 0, 1]), " ".join(hacts(rng.randint(0, 2))))).strip()); ntb += 1
    pend = False
    def toks():
        nonlocal pend
        out = []
        n = rng.choice([0, 0, 1, 1, 2, 3])
        if pend:
            if n == 0 or rng.random() < 0.3: return out
            out.append("a"); pend = False; n -= 1
        for _ in range(n):
            if rng.random() < 0.55: out.append(rng.choice(["a", "a", "A", "U"]))
            else: out.append("%s%d,%d" % (rng.choice("PPDDR"), rng.randint(0, L - 1), rng.randint(0, C - 1)))
        if rng.random() < 0.3: out.append("E"); pend = True
        return out
    def drop_inst():
        nonlocal inst_refs, root_refs
        if inst_refs == 1:
            while root_refs > 0: emit("unref 0"); root_refs -= 1
        if inst_refs > 0: emit("iunref"); inst_refs -= 1
    early = rng.random() < 0.6          # the instance goes before (some of) the windows
    for step in range(rng.randint(5, 16)):
        r = rng.random()
        if early and inst_refs > 0 and rng.random() < 0.12: drop_inst(); continue
        if r < 0.10: emit("unref %d" % nonroot())
        elif r < 0.14:
            if rng.random() < 0.5 and root_refs > 0: emit("ref 0"); root_refs += 1
            elif root_refs > 0: emit("unref 0"); root_refs -= 1
        elif r < 0.18: emit("%s %d" % (rng.choice(["close", "ref"]), nonroot()))
        elif r < 0.30: emit("%s %d" % (rng.choice(["raise", "raisefront", "lower", "lowerback"]), nonroot()))
        elif r < 0.35: emit("%s %d" % (rng.choice(["hide", "show", "expose"]), rng.randrange(nw)))
        elif r < 0.38: emit("flush")
        elif r < 0.42 and nw < 8:
            p = rng.randrange(nw); emit("win %d %d %d %d %d 0" % ((p,) + rect(rng))); parent[nw] = p; nw += 1
        elif r < 0.54: emit(("ilater " + " ".join(hacts(rng.randint(0, 3)))).strip()); nwatch += 1
        elif r < 0.62: emit(("itimer %d %s" % (rng.choice([0, 10, 50, 100]), " ".join(hacts(rng.randint(0, 2))))).strip()); nwatch += 1
        elif r < 0.66 and nwatch: emit("icancel %d" % rng.randrange(nwatch + 1))
        elif r < 0.80:
            t = toks()
            emit(("itick " + " ".join(t)).strip())
        elif r < 0.85: emit("tick %d" % rng.choice([10, 50, 60, 100]))
        elif r < 0.88: emit("iref"); inst_refs += 1 if inst_refs > 0 else 0
        elif r < 0.91: emit(rng.choice(["tunref", "tref", "tunref"]))
        elif r < 0.94:
            was = pend; t = toks()
            emit(("%s %s" % (rng.choice(["tpush", "tread", "twait"]), " ".join(t))).strip())
            pend = was or pend       # skipped when the application has dropped its own reference to the terminal: conservative
        elif r < 0.96: emit("tcheck")
        elif r < 0.98: emit("key")
        else: drop_inst()
    emit("end")

info = {}
if a.tier == "exhaustive":
    # all orders of <= 5 lifecycle operations on root(0) > 1 > 2, window 3 a sibling of 1, one pen
    alphabet = ["unref 1", "unref 2", "unref 0", "close 1", "close 2", "ref 2", "raise 2", "lower 1", "raisefront 3", "flush", "setpen 2 0", "punref 0", "key"]
    nh = 0
    for k in range(1, 5):
        for seq in itertools.product(alphabet, repeat=k):
            if k == 4 and (dhash(seq) ^ a.seed) % 4 != 0:   # a quarter of the 4-sequences per seed
                continue
            emit("new 6 12"); emit("win 0 0 0 4 8 0"); emit("win 1 0 0 2 4 0"); emit("win 0 1 1 3 3 0"); emit("pen")
            emit("bind 2 key 0 u2")
            for s in seq: emit(s)
            emit("flush"); emit("end"); nh += 1
    # the mock terminal's copy-out call: every safe buffer length for every span of five fixed lines
    FIXED = [[("c3a9", 1), ("41", 1), ("e4b8ad", 2), ("e282ac", 1)], [("e4b8ad", 2), ("f09f9880", 2), ("7a", 1)],
             [("65cc81", 1), ("efbca1", 2), ("c2a1", 1), ("41cc81cc88", 1)], [("41", 1), ("e4b8adcc81", 2), ("78e2808b", 1), ("c3a9", 1)],
             [("f0a08080", 2), ("c3a9", 1), ("c3a9", 1), ("e282ac", 1)]]
    nm = 0
    for cl in FIXED:
        Cm = sum(w for _, w in cl) + (a.seed % 2)
        for col in range(Cm):
            for width in range(1, Cm - col + 1):
                scr = [["20"] * Cm]
                mock_print(scr, 1, Cm, 0, 0, cl)
                inside, other = mock_lens(scr, 0, col, width)
                emit("newmock 1 %d" % Cm); emit("mprint 0 0 %s" % "".join(h for h, _ in cl))
                for ln in [-1, 0] + sorted(inside + other): emit("mdisp %d 0 %d %d" % (ln, col, width))
                emit("end"); nm += 1
    # the terminal's input entry points: every sequence of <= 3 operations with a key handler on the terminal that quits
    alpha_t = ["tpush E", "tpush a", "twait", "twaitv a", "tread E", "tcheck", "tick 60", "tunref", "tref", "key", "unref 0", "tpush P1,1 R1,1"]
    nt = 0
    for k in range(1, 4):
        for seq in itertools.product(alpha_t, repeat=k):
            esc = False; ok = True
            for o in seq:      # an ESC is followed by nothing but `a` (Model/LifeTop.lean `decode`)
                if esc and o in ("tread E", "tpush E", "tpush P1,1 R1,1"): ok = False
                if o.endswith(" E"): esc = True
                elif o in ("tpush a", "twaitv a", "twait"): esc = False
            if not ok: continue
            emit("newin 6 12"); emit("win 0 0 0 2 4 0"); emit("tbind key %d u1 u0 t" % (len(seq) % 2))
            for o in seq: emit(o)
            emit("end"); nt += 1
    # the toplevel instance: every sequence of <= 3 operations on root > 1 > 2 (the last reference to the instance is not
    # dropped while the application holds the root window: known finding rootwin_outlives_tickit)
    alpha_i = ["unref 0", "unref 1", "unref 2", "iunref", "iref", "ilater u2", "ilater", "itimer 0 c1", "itick", "itick a", "raise 1", "flush", "tunref", "icancel 0"]
    ni = 0
    for k in range(1, 4):
        for seq in itertools.product(alpha_i, repeat=k):
            rr, ir, ok = 1, 1, True
            for o in seq:
                if o == "unref 0" and rr > 0: rr -= 1
                elif o == "iref" and ir > 0: ir += 1
                elif o == "iunref" and ir > 0:
                    if ir == 1 and rr > 0: ok = False
                    ir -= 1
            if not ok: continue
            emit("newtop 6 12"); emit("win 0 0 0 4 8 0"); emit("win 1 0 0 2 4 0"); emit("bind 2 key 0 u2")
            for o in seq: emit(o)
            emit("end"); ni += 1
    # tickit_mockterm_resize: from 3x4 with content in the last line and column to every size of 1..5 x 1..6 and on to a
    # second size (seed-selected), the display read back after each
    nr = 0
    for nL in range(1, 6):
        for nC in range(1, 7):
            L2, C2 = 1 + (nL * 7 + nC * 3 + a.seed) % 5, 1 + (nL * 5 + nC + a.seed) % 6
            emit("newmock 3 4"); emit("mprint 2 0 61c3a9e4b8ad"); emit("mprint 0 3 7a")
            scr = [["20"] * 4 for _ in range(3)]
            mock_print(scr, 3, 4, 2, 0, [("61", 1), ("c3a9", 1), ("e4b8ad", 2)]); mock_print(scr, 3, 4, 0, 3, [("7a", 1)])
            for (xl, xc) in ((nL, nC), (L2, C2)):
                emit("mresize %d %d" % (xl, xc)); scr = mock_resize(scr, xl, xc)
                for line in sorted({0, xl - 1}):
                    inside, other = mock_lens(scr, line, 0, xc)
                    cand = [x for x in inside + other if x > xc]
                    emit("mdisp %d %d 0 %d" % (max(cand) if cand else 0, line, xc))
            emit("end"); nr += 1
    # the SIGWINCH observer list: the main terminal and three further ones, all observing; every sequence of <= 3 of:
    # stop / observe again (each terminal), destroy (each further terminal), the signal.  Sequences that observe again
    # with a stale link run into known finding sigwinch_stale_next on the unrepaired tree.
    alpha_s = ["xobs 0 0", "xobs 1 0", "xobs 2 0", "xobs 0 1", "xobs 1 1", "xobs 2 1", "tobs 0", "tobs 1", "xunref 0", "xunref 1", "xunref 2", "winch"]
    nsw = 0
    for k in range(1, 4):
        for seq in itertools.product(alpha_s, repeat=k):
            if k == 3 and (dhash(seq) ^ a.seed) % 2 != 0: continue
            emit("new 6 12"); emit("xnew"); emit("xnew"); emit("xnew")
            for o in (["xobs 0 1", "tobs 1", "xobs 1 1", "xobs 2 1"] if len(seq) % 2 else ["tobs 1", "xobs 2 1", "xobs 1 1", "xobs 0 1"]): emit(o)
            for o in seq: emit(o)
            emit("winch"); emit("end"); nsw += 1
    # the output side: every sequence of <= 3 operations (and a seed-selected third of those of 4) over buffer lengths around
    # what is pending, printing, flushing and the 19-parameter pen, on a terminal with both capabilities
    RICH = "fg=200#c80a14,bg=100#0102fa,b=1,u=3,i=1,rv=1,strike=1,af=2,blink=1,sizepos=2"
    alpha_o = ["tbuf 0", "tbuf 1", "tbuf 7", "tbuf 40", "tprint 6162636465", "tprint " + "78" * 12, "tflush", "tsetpen " + RICH,
               "tchpen fg=3,u=2", "tgoto 2 3"]
    no = 0
    for k in range(1, 5):
        for seq in itertools.product(alpha_o, repeat=k):
            if k == 4 and (dhash(seq) ^ a.seed) % 3 != 0: continue
            emit("new 6 12"); emit("tcaps 1 1 %s" % ("reply" if len(seq) % 2 else "ctl"))
            for o in seq: emit(o)
            emit("end"); no += 1
    # timers that register timers: every sequence of <= 3 operations over registrations whose callbacks register a past, a
    # present and a future timer or a deferred call, ticks and the clock
    alpha_w = ["itimer 0 a0", "itimer 0 a0 l a5", "itimer 10 a0 a10", "ilater a0 l", "itimerat 0 l", "itick", "itick a", "tick 10",
               "icancel 1", "tbind key 0 a0 l"]
    nwt = 0
    for k in range(1, 4):
        for seq in itertools.product(alpha_w, repeat=k):
            emit("newtop 4 8")
            for o in seq: emit(o)
            emit("itick")
            if (dhash(seq) ^ a.seed) % 2: emit("unref 0"); emit("iunref")
            emit("end"); nwt += 1
    # drags on root > 1 > 2 (window 2 the source): what the source's handler does (bound before or after the press, claiming
    # or not), what the application drops afterwards, how the drag goes on
    ndr = 0
    for acts in ["", "c1", "c2", "h1", "u2", "c1 r2", "x c1", "R2 c1"]:
        for early in (0, 1):
            for ret in (0, 1):
                for after in ([], ["unref 1"], ["unref 2"], ["close 1", "unref 1"], ["unref 2", "unref 1"], ["flush", "unref 1"]):
                    for tail in (["mouse 2 1 3 6", "mouse 3 1 3 6"], ["mouse 2 1 8 15", "mouse 2 1 3 5", "mouse 3 1 8 15"], ["mouse 3 1 0 0"]):
                        emit("new 10 20"); emit("win 0 2 2 6 12 0"); emit("win 1 1 1 3 8 0")
                        b = ("bind 2 mouse %d %s" % (ret, acts)).strip()
                        if early: emit(b)
                        emit("mouse 1 1 4 5")
                        if not early: emit(b)
                        emit("mouse 2 1 4 6")
                        for o in after: emit(o)
                        for o in tail: emit(o)
                        emit("end"); ndr += 1
    # key dispatch on root > 1 > 2 > 3 with the focus on 3: one handler (on 1, 2 or 3) that hides / closes / shows a window of
    # the chain and lets the key pass or keeps it; the chain hidden beforehand or not; two ways of dropping everything
    nkc = 0
    for hw in (1, 2, 3):
        for tgt in (1, 2, 3):
            for act in "hcs":
                for ret in (0, 1):
                    for pre in ([], ["hide 1"], ["hide 2"]):
                        emit("new 10 20"); emit("win 0 1 1 8 16 0"); emit("win 1 1 1 6 12 0"); emit("win 2 1 1 2 4 0"); emit("focus 3")
                        emit("bind %d key %d %s%d" % (hw, ret, act, tgt))
                        for o in pre: emit(o)
                        emit("key")
                        if (hw + tgt + ret + len(pre) + a.seed) % 2: emit("key")
                        for o in (["close 1", "unref 3", "unref 2", "unref 1"] if (hw + tgt + a.seed) % 2 else ["unref 1", "unref 2", "unref 3"]): emit(o)
                        emit("end"); nkc += 1
    # I/O watches: two or three descriptors readable in one poll turn, the first callback registering 0..5 further watches
    # (the slot tables hold 4: the terminal's and three more), cancelling itself or a neighbour; one or two ticks
    nio_h = 0
    for nreg in range(0, 6):
        for extra in ([], ["x"], ["k1"], ["k1", "i1"]):
            for others in (1, 2, 3):
                for ticks in (["itick"], ["itick", "itick a"]):
                    emit("newtop 4 8")
                    emit(("iio 1 %s" % " ".join(extra[:1] + ["i1"] * nreg + extra[1:])).strip())
                    for _ in range(others): emit("iio 1")
                    for o in ticks: emit(o)
                    if (nreg + others + a.seed) % 2: emit("unref 0"); emit("iunref")
                    emit("end"); nio_h += 1
    # runs of LINE cells around the 85 box-drawing characters the scratch block of a render buffer holds at first
    nwr = 0
    for n in (84, 85, 86, 87, 171, 172):
        for start in (0, 3):
            for term in ("new", "newmock"):
                emit("%s 2 200" % term); emit("rb 1 200"); emit("bhline 0 0 %d %d" % (start, start + n - 1)); emit("bflush 0")
                emit("bhline 0 0 0 %d" % (n + 1)); emit("bflush 0"); emit("end"); nwr += 1
    # tickit_renderbuffer_textf_at whose formatted text is as long as the scratch block (256 at first, doubled as needed) or a
    # byte or two off: on a fresh render buffer, and after shorter / longer texts grew the block
    ntf = 0
    for n in TEXTF_LENS:
        for pre in ([], [300], [n - 1], [600, 512], [1030]):
            gen_textf_history(rng, n, pre); ntf += 1
    # tickit_window_get_children on a root window of 0..5 children with every array length 0..children+1
    nkd = 0
    for k in range(0, 6):
        gen_kids_history(rng, k, list(range(0, k + 2))); nkd += 1
    # process watches: all sequences of <=3 operations over {watch an exited child, watch a running child, cancel the first,
    # cancel the second, one loop turn}, followed by a loop turn
    npw = 0
    import itertools
    for ln in range(1, 4):
        for seq in itertools.product(["iproc 1", "iproc 0", "iproccancel 0", "iproccancel 1", "itick"], repeat=ln):
            if not seq[0].startswith("iproc "): continue
            gen_procwatch_history(rng, list(seq) + ["itick"]); npw += 1
    info = {"process_watch_histories": npw, "get_children_histories": nkd, "textf_scratch_histories": ntf, "keychain_histories": nkc, "iowatch_histories": nio_h, "wide_linerun_histories": nwr, "termout_histories": no, "timer_callback_histories": nwt, "drag_histories": ndr, "mock_display_histories": nm, "terminput_histories": nt, "toplevel_histories": ni, "mock_resize_histories": nr, "sigwinch_histories": nsw}
    info.update({"exhaustive_bound": "all sequences of <=3 (and a seed-selected quarter of the length-4) operations over a 13-letter lifecycle alphabet on root>1>2, 3 sibling of 1, one pen, one self-unref key handler; each followed by flush and end; tickit_mockterm_get_display_text with every buffer length (short of the known exact-fill overflow) for every span of five fixed lines of multi-byte, double-width and combining cells; all sequences of <=3 operations over a 12-letter alphabet of terminal input calls with a quitting key handler on the terminal, and over a 14-letter alphabet of toplevel-instance calls on root>1>2; tickit_mockterm_resize from 3x4 to every size of 1..5 x 1..6 and on to a second size; all sequences of <=2 (and half of those of 3) operations over a 12-letter alphabet of observe/stop/destroy/SIGWINCH on four observing terminals; all sequences of <=3 (and a third of those of 4) operations over a 10-letter alphabet of output-buffer lengths, printing, flushing, cursor movement and the 19-parameter pen on an xterm terminal with both capabilities; all sequences of <=3 operations over a 10-letter alphabet of timers and deferred calls whose callbacks register further (past, present, future) timers and deferred calls; 576 drags on root>1>2 (8 handler behaviours of the source x bound before/after the press x claiming or not x 6 ways of dropping the chain afterwards x 3 continuations); 324 key dispatches on root>1>2>3 focused on 3 (handler on 1/2/3 hiding, closing or showing 1/2/3, passing or keeping the key, chain shown or hidden at 1 or 2); 144 histories of I/O watches readable in one poll turn whose first callback registers 0..5 further watches and cancels itself or a neighbour; runs of 84..87 and 171..172 LINE cells flushed from a 200-column render buffer to the xterm and the mock terminal", "histories": nh})
else:
    scale = 1 if a.tier == "quick" else 5
    fams = {"tree": 700, "handlers": 700, "foreign": 400, "objects": 400, "pens": 400, "copyout": 400, "terminput": 500, "toplevel": 500, "mockresize": 360, "sigwinch": 400, "drag": 400, "timers": 300, "termout": 400, "keychain": 300, "iowatch": 300, "widerb": 60, "textf": 42, "kids": 150, "procwatch": 120}
    if a.families:
        fams = {k: v for k, v in fams.items() if k in a.families.split(",")}
    for fam, n in fams.items():
        for _ in range(n * scale):
            before = len(lines)
            if fam == "tree": gen_tree_history(rng, False, False)
            elif fam == "handlers": gen_tree_history(rng, True, False)
            elif fam == "foreign": gen_tree_history(rng, True, True)
            elif fam == "objects": gen_objects_history(rng)
            elif fam == "pens": gen_pens_history(rng)
            elif fam == "terminput": gen_terminput_history(rng)
            elif fam == "toplevel": gen_toplevel_history(rng)
            elif fam == "mockresize": gen_mockresize_history(rng, (RESIZE_KINDS[(_ // 3) % 3], RESIZE_KINDS[_ % 3]))
            elif fam == "sigwinch": gen_sigwinch_history(rng)
            elif fam == "drag": gen_drag_history(rng)
            elif fam == "timers": gen_timers_history(rng)
            elif fam == "termout": gen_termout_history(rng)
            elif fam == "keychain": gen_keychain_history(rng)
            elif fam == "iowatch": gen_iowatch_history(rng)
            elif fam == "widerb": gen_widerb_history(rng)
            elif fam == "kids": gen_kids_history(rng)
            elif fam == "procwatch": gen_procwatch_history(rng)
            elif fam == "textf": gen_textf_history(rng, TEXTF_LENS[_ % len(TEXTF_LENS)], [] if _ < len(TEXTF_LENS) else rng.choice([[300], [TEXTF_LENS[_ % len(TEXTF_LENS)] - 1], [600, 512], [1030], [257]]))
            else: gen_copyout_history(rng)
            fam_count[fam] = fam_count.get(fam, 0) + 1
    info = {"histories": sum(fam_count.values()), "families": fam_count, "mresize_combinations": resize_mix}
open(a.out, "w").write("\n".join(lines) + "\n")
info.update({"ops": len(lines), "mix": mix})
print(json.dumps(info))
