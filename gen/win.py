#!/usr/bin/env python3
"""Operation generator for engine `win` (C01, C02).  All randomness from --seed.

quick/thorough: random histories over trees of <= 8 windows on small terminals: windows inside, partly outside and wholly
outside their parents, hidden subtrees, every creation flag; create/close/show/hide/restack/move/resize/expose/scroll/
terminal-resize interleaved with flushes.  --prop C01: well-behaved handlers (paint content), geometry changes followed by
the exposes the property's proviso demands.  --prop C02: adversarial handlers drawing anywhere - erases, texts, characters,
skips, clears, line segments (hline_at / vline_at), copyrect / moverect within the buffer, save / savepen / restore (balanced,
left open, one restore too many), setpen with reverse video; every window draws with the foreground tag id+1 so that the
writer of a cell can be identified on the grid.  Scenarios mixed in: a window with a border of line segments and a window
behind it (parent or lower sibling) ruling lines through the border's rows and columns; a short text at the start of a row and
the rest of the row pulled a few columns left over its end (the copy overwrites the start of the run it walks), then more
drawing; a label under savepen / restore followed by a clear of everything.
Texts are also drawn with tickit_renderbuffer_textf_at (format "%*s": formatted results below and from 64 bytes on, clipped to
small windows), in the same flush as line segments and single characters of any window.  The terminal is resized in every
configuration, the mock terminal by tickit_mockterm_resize (landscape shapes, wider / narrower / taller / shorter).
One history in twenty runs on the library's xterm driver (scroll oracle x; bytes interpreted by the VT model in the driver):
1-4 lines of 65-140 columns, windows exactly 64 / 128 columns wide or starting at column 64 / 128, reverse-video pens, handlers
that blank whole windows (the driver writes reverse-video blanks as spaces in slices of 64); the background colour is the
writer tag there.
exhaustive: every history of <= 4 operations from a fixed alphabet over a fixed tree of 3 windows, each followed by a flush.

`scrollch w d r` is the compound step of Props.C01.scrollch_step_full: tickit_window_scroll_with_children, then the
application moves every child of w by (-d, -r) with set_geometry and no expose, as tickit_window_scroll.3 says it must ("does
not actually move the child windows").

Domain restrictions (stated in the property's proviso, Props.C01.TreeOp.Ok, not silent omissions):
  * set_geometry / resize / reposition is never applied to the ROOT window (id 0): by the documentation the root "occupies the
    entire terminal" (tickit_window.7; tickit_window_get_geometry.3: "its top left corner will be at zero, and its size will give
    the size of the underlying terminal") and only the library changes its geometry (on_term_resize: the `resize` operation,
    which is generated).  With it the property is false: Props.C01.root_setGeometry_counterexample.  The harness answers
    `bad-op` to `geom 0 ...`.
  * no operation on a closed window or below one (undefined: the parent chain no longer reaches a root).
Every defect this engine found has been repaired in the library (known/C01.json, known/C02.json: "fixed"), so nothing else is
avoided: UNFIXED below is empty and the guards that mention it are inert (kept so that a future finding can be fenced off
without disturbing the random stream)."""
import argparse, random, json, itertools

ap = argparse.ArgumentParser()
ap.add_argument("--seed", type=int, default=1); ap.add_argument("--tier", default="quick")
ap.add_argument("--out", required=True); ap.add_argument("--prop", default="C01")
a = ap.parse_args()
rng = random.Random(a.seed * 7919 + (1 if a.prop == "C02" else 0))
C02 = a.prop == "C02"
lines = []
mix = {}
stats = {"windows": {}, "outside_parent": 0, "hidden_created": 0, "flushes": 0, "scroll_modes": {}, "histories": 0}


def emit(s):
    lines.append(s)
    k = s.split()[0]
    mix[k] = mix.get(k, 0) + 1


def hexs(s):
    return "".join("%02x" % b for b in s.encode("utf-8"))


def rand_text(n):
    """n characters: ASCII letters, fullwidth (double-width) letters, letters with a combining acute accent."""
    kind = rng.random()
    out = []
    for _ in range(n):
        x = rng.random()
        if kind < 0.35 or x < 0.55:
            out.append(chr(rng.randint(65, 90)))
        elif x < 0.85:
            out.append(chr(0xff21 + rng.randint(0, 25)))          # double-width
        else:
            out.append(chr(rng.randint(97, 122)) + "\u0301")      # base + combining
    stats["wide_texts"] = stats.get("wide_texts", 0) + (1 if any(ord(ch) > 127 for ch in "".join(out)) else 0)
    return "".join(out)


class Hist:
    def __init__(self):
        self.parent = {}      # id -> parent id
        self.rect = {}        # id -> [t,l,n,k]
        self.dead = set()     # closed windows and everything below them
        self.pending = set()  # windows with a queued restack request
        self.n = 0

    def live(self):
        return [i for i in range(self.n) if i not in self.dead]

    def descendants(self, w):
        out = [w]
        for i in range(self.n):
            p = self.parent.get(i)
            while p is not None:
                if p == w:
                    out.append(i); break
                p = self.parent.get(p)
        return out


# Findings not yet repaired in the library would be named here and generated histories kept away from their triggers (each
# probed deliberately from corpus/).  All of them (hidden_root, empty_subtract, scroll_unclipped, root_shrink) are repaired:
# the set is empty.
UNFIXED = set()


def sticks_out(h, w, reg):
    """Does region reg (t,l,n,k in w's coordinates) extend beyond the bounds of some ancestor of w?"""
    t, l, n, k = reg
    while h.parent.get(w) is not None:
        t += h.rect[w][0]; l += h.rect[w][1]
        p = h.parent[w]
        if t < 0 or l < 0 or t + n > h.rect[p][2] or l + k > h.rect[p][3]:
            return True
        w = p
    return False


def isect(a, b):
    t = max(a[0], b[0]); l = max(a[1], b[1]); bt = min(a[0] + a[2], b[0] + b[2]); r = min(a[1] + a[3], b[1] + b[3])
    return [t, l, bt - t, r - l] if t < bt and l < r else None


XM = False      # the history runs on the xterm driver: the writer tag is the background colour


def rv_tok():
    return rng.choice(["x", "x", "x", "0", "1", "1"])


def pen_tok(id_, null_ok=True):
    if C02:
        bg = str(id_ + 1) if XM else rng.choice(["x", "x", str(rng.randint(0, 7))])
        b = rng.choice(["x", "x", "0", "1"])
        if XM or rng.random() < 0.3:
            return "pen=%d:%s:%s:%s" % (id_ + 1, bg, b, rv_tok())
        return "pen=%d:%s:%s" % (id_ + 1, bg, b)
    x = rng.random()
    if null_ok and x < 0.08:
        return "pen=N"
    f = rng.choice(["x", str(rng.randint(0, 7)), str(id_ + 1)])
    bg = rng.choice(["x", str(rng.randint(0, 7))])
    b = rng.choice(["x", "x", "0", "1"])
    if XM or rng.random() < 0.2:
        return "pen=%s:%s:%s:%s" % (f, bg, b, rv_tok())
    return "pen=%s:%s:%s" % (f, bg, b)


def rand_rect_in(pl, pc, kind=None):
    """A rectangle relative to a parent of size pl x pc."""
    x = rng.random() if kind is None else kind
    if x < 0.62:      # inside
        n = rng.randint(1, max(1, pl)); k = rng.randint(1, max(1, pc))
        t = rng.randint(0, max(0, pl - n)); l = rng.randint(0, max(0, pc - k))
    elif x < 0.90:    # straddling an edge
        n = rng.randint(1, max(1, pl + 2)); k = rng.randint(1, max(1, pc + 2))
        t = rng.randint(-n + 1, pl - 1) if pl > 0 else 0
        l = rng.randint(-k + 1, pc - 1) if pc > 0 else 0
        stats["outside_parent"] += 1
    elif x < 0.97:    # wholly outside
        n = rng.randint(1, 4); k = rng.randint(1, 6)
        t = rng.choice([-n - rng.randint(0, 2), pl + rng.randint(0, 2), rng.randint(0, max(0, pl - 1))])
        l = rng.choice([-k - rng.randint(0, 2), pc + rng.randint(0, 2)])
        stats["outside_parent"] += 1
    else:             # degenerate
        n = rng.choice([0, 1, 2]); k = rng.choice([0, 1, 3]) if n else rng.randint(0, 3)
        t = rng.randint(0, max(0, pl - 1)); l = rng.randint(0, max(0, pc - 1))
    return [t, l, n, k]


def expose_instr(h, w):
    """tickit_window_expose from inside a handler: own window (overlapping / contained / adjacent to the handed
    rectangle) or any other live window."""
    stats["handler_exposes"] = stats.get("handler_exposes", 0) + 1
    x = rng.random()
    if x < 0.5:
        return "z:%d:%d:%d:%d" % (rng.choice([-1, 0, 0, 1, 2]), rng.choice([-2, 0, 0, 1, 3]), rng.choice([-1, 0, 0, 1]), rng.choice([-2, 0, 0, 1]))
    live = h.live()
    tgt = rng.choice(live) if live else w
    if x < 0.7:
        return "Z:%d" % tgt
    n, k = h.rect.get(tgt, [0, 0, 1, 1])[2:]
    return "Z:%d:%d:%d:%d:%d" % (tgt, rng.randint(-1, max(0, n)), rng.randint(-1, max(0, k)), rng.randint(1, max(1, n)), rng.randint(1, max(1, k)))


def abs_pos(h, w):
    t, l = 0, 0
    while w is not None and h.parent.get(w) is not None:
        t += h.rect[w][0]; l += h.rect[w][1]; w = h.parent[w]
    return t, l


def setpen_instr(w):
    bg = str(w + 1) if XM else rng.choice(["x", str(rng.randint(0, 7))])
    if XM or rng.random() < 0.4:
        return "N:%s:%s:%s" % (bg, rng.choice(["x", "0", "1"]), rv_tok())
    return "N:%s:%s" % (bg, rng.choice(["x", "0", "1"]))


def line_instr(h, w):
    """hline_at / vline_at: inside, along the edges of, and far beyond the window."""
    n, k = h.rect[w][2], h.rect[w][3]
    stats["line_instrs"] = stats.get("line_instrs", 0) + 1
    style = rng.choice([1, 1, 2, 3]); caps = rng.choice([0, 0, 1, 2, 3])
    x = rng.random()
    if x < 0.45:
        line = rng.choice([0, n - 1, rng.randint(-1, n)])
        c0 = rng.choice([0, 0, -3, rng.randint(-2, max(0, k - 1))]); c1 = rng.choice([k - 1, k - 1, k + 4, c0, c0 + rng.randint(0, k + 2)])
        return "H:%d:%d:%d:%d:%d" % (line, c0, c1, style, caps)
    if x < 0.9:
        col = rng.choice([0, k - 1, rng.randint(-1, k)])
        l0 = rng.choice([0, 0, -2, rng.randint(-1, max(0, n - 1))]); l1 = rng.choice([n - 1, n - 1, n + 3, l0, l0 + rng.randint(0, n + 1)])
        return "I:%d:%d:%d:%d:%d" % (l0, l1, col, style, caps)
    if x < 0.95:
        return "h:%d:%d:%d:%d:%d" % (rng.randint(-1, 1), rng.randint(-2, 1), rng.randint(0, 6), style, caps)
    return "i:%d:%d:%d:%d:%d" % (rng.randint(-1, 1), rng.randint(0, 4), rng.randint(-1, 2), style, caps)


def box_instrs(n, k, style=1):
    """A border of line segments around an n x k window."""
    return ["H:0:0:%d:%d:0" % (k - 1, style), "H:%d:0:%d:%d:0" % (n - 1, k - 1, style),
            "I:0:%d:0:%d:0" % (n - 1, style), "I:0:%d:%d:%d:0" % (n - 1, k - 1, style)]


def copy_instr(h, w):
    """copyrect / moverect: the source is taken in buffer coordinates (the library does not translate it), the
    destination relative to the window; the harness drops calls outside WinRB.copyDomain."""
    n, k = h.rect[w][2], h.rect[w][3]
    tl, tc = h.rect[0][2], h.rect[0][3]
    at, al = abs_pos(h, w)
    stats["copy_instrs"] = stats.get("copy_instrs", 0) + 1
    op = rng.choice(["Y", "Y", "M"])
    if rng.random() < 0.7:
        # within the window: rows/columns of the window that lie inside the buffer
        r = rng.randint(0, max(0, n - 1)); c = rng.randint(0, max(0, k - 1))
        sn = rng.randint(1, max(1, min(3, n - r))); sk = rng.randint(1, max(1, k - c))
        st, sl = at + r, al + c
        dt = r + rng.choice([0, 0, 0, -1, 1, -2, 2]); dl = c + rng.choice([0, -1, -1, -2, -3, 1, 2, 4])
    else:
        sn = rng.randint(1, max(1, min(3, tl))); sk = rng.randint(1, max(1, tc))
        st = rng.randint(0, max(0, tl - sn)); sl = rng.randint(0, max(0, tc - sk))
        dt = rng.randint(-2, n + 1); dl = rng.randint(-4, k + 2)
    if rng.random() < 0.06:      # now and then outside the buffer (not called)
        st += rng.choice([-1, tl]); sl += rng.choice([-1, 0, tc])
    return "%s:%d:%d:%d:%d:%d:%d" % (op, dt, dl, st, sl, sn, sk)


def pull_left_instrs(h, w):
    """A short text at the start of a row, then the (still empty, or just painted) rest of the row pulled a few columns to
    the left over the text's end: the copy moves a run leftwards over the start of that very run."""
    n, k = h.rect[w][2], h.rect[w][3]
    at, al = abs_pos(h, w)
    r = rng.randint(0, max(0, n - 1))
    tlen = rng.randint(1, 4)
    txt = "".join(chr(rng.randint(65, 90)) for _ in range(tlen))
    c0 = tlen + rng.randint(1, 3)
    width = rng.randint(1, 6)
    d = rng.randint(c0 - tlen + 1, c0) if rng.random() < 0.8 else rng.randint(1, c0)
    stats["pull_left"] = stats.get("pull_left", 0) + 1
    return ["T:%d:0:%s" % (r, hexs(txt)), "%s:%d:%d:%d:%d:1:%d" % (rng.choice(["Y", "Y", "M"]), r, c0 - d, at + r, al + c0, width)]


def textf_instr(h, w, long_only=False):
    """tickit_renderbuffer_textf_at(rb, l, c, "%*s", pad, text): formatted results below and from 64 bytes on (the second path of
    put_vtextf goes through the buffer's scratch area), clipped to windows that are much smaller."""
    n, k = h.rect[w][2], h.rect[w][3]
    txt = rand_text(rng.choice([64, 70, 100, 150] if long_only else [1, 5, 20, 40, 63, 64, 70, 100]))
    nbytes = len(txt.encode("utf-8"))
    pad = rng.choice([0, 0, 0, nbytes + rng.randint(1, 4), 64, 80])
    stats["textf_instrs"] = stats.get("textf_instrs", 0) + 1
    if max(nbytes, pad) >= 64: stats["textf_long"] = stats.get("textf_long", 0) + 1
    if rng.random() < 0.7:
        return "F:%d:%d:%d:%s" % (rng.randint(-1, n), rng.choice([0, 0, rng.randint(-6, k + 2), -pad]), pad, hexs(txt))
    return "f:%d:%d:%d:%s" % (rng.randint(-1, 2), rng.randint(-4, 2), pad, hexs(txt))


def adversarial_prog(h, w):
    n, k = h.rect[w][2], h.rect[w][3]
    ins = []
    if rng.random() < 0.15:
        ins.append(expose_instr(h, w))
    if XM and rng.random() < 0.5:
        ins.append(setpen_instr(w))
    for _ in range(rng.randint(1, 5)):
        x = rng.random()
        far = lambda: rng.choice([-1000, -7, -2, -1, 0, 1, 2, n - 1, n, n + 1, k - 1, k, k + 1, 40, 1000])
        if x < 0.12:
            ins.append("P")
        elif x < 0.24:
            ins.append("E:%d:%d:%d:%d" % (rng.randint(-3, 3), rng.randint(-3, 3), rng.randint(0, n + 4), rng.randint(0, k + 6)))
        elif x < 0.31:
            ins.append("E:%d:%d:%d:%d" % (far(), far(), rng.choice([1, 3, 50, 2000]), rng.choice([1, 5, 80, 3000])))
        elif x < 0.39:
            ins.append("e:%d:%d:%d:%d" % (rng.randint(-2, 1), rng.randint(-2, 1), rng.randint(-1, 3), rng.randint(-1, 3)))
        elif x < 0.52:
            txt = rand_text(rng.choice([1, 2, 5, 12, 40]))
            if rng.random() < 0.3:
                ins.append(textf_instr(h, w))
            elif rng.random() < 0.5:
                ins.append("T:%d:%d:%s" % (rng.randint(-2, n + 1), rng.randint(-6, k + 2), hexs(txt)))
            else:
                ins.append("t:%d:%d:%s" % (rng.randint(-1, 2), rng.randint(-4, 2), hexs(txt)))
        elif x < 0.59:
            if rng.random() < 0.5:
                ins.append("C:%d:%d:%d" % (far() if rng.random() < 0.3 else rng.randint(-1, n), rng.randint(-1, k), rng.randint(97, 122)))
            else:
                ins.append("c:%d:%d:%d" % (rng.randint(-1, 2), rng.randint(-1, 2), rng.randint(97, 122)))
        elif x < 0.64:
            ins.append("K")
        elif x < 0.68:
            ins.append("S:%d:%d:%d:%d" % (rng.randint(-2, n), rng.randint(-2, k), rng.randint(0, 3), rng.randint(0, 5)))
        elif x < 0.73:
            ins.append(setpen_instr(w))
        elif x < 0.76:
            ins.append("X:%d:%d" % (rng.randint(-3, 3), rng.randint(-5, 5)))
        elif x < 0.78:
            ins.append("L:%d:%d:%d:%d" % (rng.randint(-1, n), rng.randint(-1, k), rng.randint(0, n + 1), rng.randint(0, k + 1)))
        elif x < 0.86:
            ins.append(line_instr(h, w))
        elif x < 0.92:
            ins.append(copy_instr(h, w))
        elif x < 0.94:
            ins.extend(pull_left_instrs(h, w))
        else:
            # save / savepen ... restore around the next instructions (or left open, or a restore too many)
            y = rng.random()
            stats["save_instrs"] = stats.get("save_instrs", 0) + 1
            if y < 0.8:
                ins.append(rng.choice(["v", "v", "V"]))
                if rng.random() < 0.6:
                    ins.append(setpen_instr(w))
                if rng.random() < 0.5:
                    ins.append("T:%d:%d:%s" % (rng.randint(0, max(0, n - 1)), rng.randint(-1, k), hexs(rand_text(rng.choice([1, 2, 5])))))
                if rng.random() < 0.85:
                    ins.append("R")
            else:
                ins.append("R")
    if rng.random() < 0.12:
        # whatever came before, paint over everything afterwards: the library has to confine this
        ins.append(rng.choice(["K", "E:-50:-50:200:400"]))
    return " ".join(ins)


def boxed_prog(h, w):
    """The window draws a border of line segments around itself (after blanking itself)."""
    n, k = h.rect[w][2], h.rect[w][3]
    stats["boxes"] = stats.get("boxes", 0) + 1
    ins = ["E:0:0:%d:%d" % (n, k)] + box_instrs(max(n, 1), max(k, 1), rng.choice([1, 1, 2, 3]))
    if rng.random() < 0.5:
        ins.append("T:%d:1:%s" % (n // 2, hexs(rand_text(rng.choice([1, 2, 5])))))
    return " ".join(ins)


def ruled_prog(h, w):
    """The window blanks itself and rules lines straight through everything in front of it: along the border rows and
    columns of its children and of windows stacked over it."""
    n, k = h.rect[w][2], h.rect[w][3]
    at, al = abs_pos(h, w)
    ins = [rng.choice(["P", "E:0:0:%d:%d" % (n, k), "K"])]
    if rng.random() < 0.5:
        ins.append(setpen_instr(w))
    others = [v for v in h.live() if v != w and v != 0]
    for _ in range(rng.randint(1, 4)):
        style = rng.choice([1, 1, 2, 3])
        if others and rng.random() < 0.85:
            v = rng.choice(others)
            vt, vl = abs_pos(h, v); vn, vk = h.rect[v][2], h.rect[v][3]
            if rng.random() < 0.5:
                ins.append("H:%d:%d:%d:%d:%d" % (vt - at + rng.choice([0, vn - 1]), -2, k + 2, style, rng.choice([0, 3])))
            else:
                ins.append("I:%d:%d:%d:%d:%d" % (-2, n + 2, vl - al + rng.choice([0, vk - 1]), style, rng.choice([0, 3])))
        else:
            ins.append(line_instr(h, w))
    stats["ruled"] = stats.get("ruled", 0) + 1
    return " ".join(ins)


def wide_rect_in(pl, pc):
    """xterm configuration: windows whose rows are exactly 64 / 128 columns wide, or that start at column 64 / 128 (cutting
    the row of the window behind to that length): the driver blanks reverse-video runs in slices of 64."""
    x = rng.random()
    n = rng.randint(1, max(1, pl)); t = rng.randint(0, max(0, pl - n))
    if x < 0.6:
        k = rng.choice([w for w in (64, 64, 128) if w <= pc] or [max(1, pc)])
        l = rng.choice([0, 0, rng.randint(0, max(0, pc - k))])
    else:
        l = rng.choice([c for c in (64, 64, 128) if c < pc] or [0])
        k = rng.randint(1, max(1, pc - l))
    return [t, l, n, k]


def new_window(h, parent=None, rect=None, flags=None):
    if parent is None:
        parent = rng.choice(h.live())
    pl, pc = h.rect[parent][2], h.rect[parent][3]
    if rect is None:
        rect = wide_rect_in(pl, pc) if (XM and pc >= 64 and rng.random() < 0.6) else rand_rect_in(pl, pc)
    if flags is None:
        flags = ""
        if rng.random() < 0.12: flags += "h"; stats["hidden_created"] += 1
        if rng.random() < 0.2: flags += "l"
        if rng.random() < 0.06: flags += "r"
        if rng.random() < 0.05: flags += "s"
    id_ = h.n
    emit("win %d %d %d %d %d %d %s %s" % (id_, parent, rect[0], rect[1], rect[2], rect[3], flags or "-", pen_tok(id_)))
    # with ROOT_PARENT the window becomes a child of the root
    if "r" in flags:
        t, l = rect[0], rect[1]
        p = parent
        while p != 0:
            t += h.rect[p][0]; l += h.rect[p][1]; p = h.parent[p]
        rect = [t, l, rect[2], rect[3]]; parent = 0
    h.parent[id_] = parent; h.rect[id_] = rect; h.n += 1
    if C02 and XM and rng.random() < 0.4:
        # blank the whole window in its own pen (far beyond its edges), perhaps a label
        prog = ([setpen_instr(id_)] if rng.random() < 0.5 else []) + [rng.choice(["E:-1:-5:10:500", "K", "E:0:0:%d:%d" % (rect[2], rect[3])])]
        if rng.random() < 0.5:
            prog.append("T:%d:%d:%s" % (rng.randint(0, max(0, rect[2] - 1)), rng.randint(0, 5), hexs(rand_text(rng.choice([1, 2, 5])))))
        emit("beh %d %s" % (id_, " ".join(prog)))
    elif C02 and rng.random() < 0.85:
        emit("beh %d %s" % (id_, boxed_prog(h, id_) if rng.random() < 0.12 else adversarial_prog(h, id_)))
    elif not C02 and rng.random() < 0.15:
        # well-behaved, but the handler also exposes: that damage is for the next flush
        emit("beh %d P %s" % (id_, " ".join(expose_instr(h, id_) for _ in range(rng.randint(1, 2)))))
    return id_


def history(h_index, big):
    global XM
    h = Hist()
    tl = rng.choice([4, 6, 8, 8, 10, 12]); tc = rng.choice([8, 10, 16, 16, 24, 30])
    mode = rng.choice(["a", "a", "a", "p", "r", "m"])     # m: the library's own mock terminal
    XM = rng.random() < 0.05
    if XM:
        # the library's xterm driver, its bytes interpreted by the VT model: few lines, rows longer than 64 columns
        mode = "x"; tl = rng.choice([1, 2, 3, 4]); tc = rng.choice([65, 66, 70, 80, 100, 129, 140])
    stats["scroll_modes"][mode] = stats["scroll_modes"].get(mode, 0) + 1
    emit("new %s %d %d %s %s" % (a.prop, tl, tc, mode, pen_tok(0, null_ok=False)))
    h.parent[0] = None; h.rect[0] = [0, 0, tl, tc]; h.n = 1
    if C02 and XM and rng.random() < 0.4:
        emit("beh 0 %s" % rng.choice(["K", "E:-1:-5:10:500", "P"]))
    elif C02 and rng.random() < 0.6:
        emit("beh 0 %s" % adversarial_prog(h, 0))
    elif not C02 and rng.random() < 0.1:
        emit("beh 0 P %s" % expose_instr(h, 0))
    nwin = rng.choice([0, 1, 2, 3, 3] if XM else [0, 1, 2, 3, 3, 4, 5, 7])
    for _ in range(nwin):
        new_window(h)
        if rng.random() < 0.15:
            emit("flush"); stats["flushes"] += 1; h.pending.clear()
    stats["windows"][nwin] = stats["windows"].get(nwin, 0) + 1
    if C02 and nwin and rng.random() < 0.2:
        # a window with a border of line segments, and a window behind it that rules lines through it
        v = rng.choice([i for i in h.live() if i != 0])
        emit("beh %d %s" % (v, boxed_prog(h, v)))
        behind = [h.parent[v]] + [i for i in h.live() if i != v and i != 0 and h.parent.get(i) == h.parent[v]]
        u = rng.choice(behind)
        emit("beh %d %s" % (u, ruled_prog(h, u)))
    if C02 and nwin and rng.random() < 0.12:
        # a label drawn with a long formatted string (clipped to its window) and, in the same flush, line segments and
        # single characters of this and other windows
        v = rng.choice(h.live())
        emit("beh %d %s" % (v, " ".join([rng.choice(["P", "K", "E:0:0:%d:%d" % (h.rect[v][2], h.rect[v][3])]), textf_instr(h, v, True)] +
                                        ([line_instr(h, v)] if rng.random() < 0.4 else []))))
        u = rng.choice(h.live())
        if u != v:
            nn, kk = h.rect[u][2], h.rect[u][3]
            emit("beh %d %s" % (u, boxed_prog(h, u) if rng.random() < 0.5 else
                                "P C:%d:%d:%d %s" % (rng.randint(0, max(0, nn - 1)), rng.randint(0, max(0, kk - 1)), rng.randint(97, 122), line_instr(h, u))))
        stats["textf_scenes"] = stats.get("textf_scenes", 0) + 1
    emit("flush"); stats["flushes"] += 1
    nops = rng.randint(2, 8) if XM else rng.randint(3, 26 if big else 18)
    for _ in range(nops):
        live = h.live()
        nonroot = [w for w in live if w != 0]
        x = rng.random()
        w = rng.choice(nonroot) if nonroot and rng.random() < 0.9 else rng.choice(live)
        if x < 0.22:
            emit("flush"); stats["flushes"] += 1; h.pending.clear()
        elif x < 0.30:
            hs = rng.choice(["hide", "show", "hide", "show"])
            if C02 and hs == "hide" and w == 0 and "hidden_root" in UNFIXED:
                emit("flush"); stats["flushes"] += 1; h.pending.clear()    # (inert: repaired) no damage pending when the root is hidden
            emit("%s %d" % (hs, w))
        elif x < 0.42:
            emit("%s %d" % (rng.choice(["raise", "raisefront", "lower", "lowerback"]), w))
            if w != 0: h.pending.add(w)
        elif x < 0.54 and w != 0:
            pl, pc = h.rect[h.parent[w]][2], h.rect[h.parent[w]][3]
            t, l, n, k = h.rect[w]
            y = rng.random()
            if y < 0.4:      # move by a little
                r = [t + rng.randint(-2, 2), l + rng.randint(-3, 3), n, k]
            elif y < 0.7:    # resize
                r = [t, l, max(0 if rng.random() < 0.05 else 1, n + rng.randint(-2, 2)), max(0 if rng.random() < 0.05 else 1, k + rng.randint(-3, 3))]
            else:
                r = rand_rect_in(pl, pc)
            emit("%s %d %d %d %d %d" % ("geomraw" if (C02 and rng.random() < 0.5) else "geom", w, r[0], r[1], r[2], r[3]))
            h.rect[w] = r
        elif x < 0.62:
            n, k = h.rect[w][2], h.rect[w][3]
            if rng.random() < 0.4:
                emit("expose %d" % w)
            else:
                emit("expose %d %d %d %d %d" % (w, rng.randint(-1, max(0, n)), rng.randint(-2, max(0, k)), rng.randint(1, max(1, n + 1)), rng.randint(1, max(1, k + 2))))
        elif x < 0.80 and not ("empty_subtract" in UNFIXED and any((h.rect[i][2] == 0 or h.rect[i][3] == 0) for i in live)):
            # (inert: repaired in 4a2b0a5) a visible empty window in front made tickit_rectset_subtract loop for ever; probed from corpus/
            if "scroll_unclipped" in UNFIXED:
                inside = [v for v in live if not sticks_out(h, v, [0, 0, h.rect[v][2], h.rect[v][3]])]
                if w not in inside and inside and rng.random() < 0.9:
                    w = rng.choice(inside)
            n, k = h.rect[w][2], h.rect[w][3]
            d = rng.choice([0, 1, 1, -1, -1, 2, -2, 3, n, -n, n - 1, n + 1])
            r = rng.choice([0, 0, 0, 1, -1, 2, -3, k, k - 1])
            if d == 0 and r == 0 and rng.random() < 0.8:
                d = rng.choice([1, -1])
            y = rng.random()
            whole_out = "scroll_unclipped" in UNFIXED and sticks_out(h, w, [0, 0, n, k])
            if y < 0.5 and not whole_out:
                emit("scroll %d %d %d" % (w, d, r))
            elif y < 0.85 or whole_out:
                rt = rng.randint(-1, max(0, n - 1)); rl = rng.randint(-1, max(0, k - 1))
                rr = [rt, rl, rng.randint(1, max(1, n + 1 - max(rt, 0))), rng.randint(1, max(1, k + 1 - max(rl, 0)))]
                reg = isect([0, 0, n, k], rr)
                if "scroll_unclipped" in UNFIXED and reg is not None and sticks_out(h, w, reg):
                    # shrink the request to the part inside every ancestor, if any
                    a_t, a_l = 0, 0; v = w; box = [0, 0, n, k]
                    while h.parent.get(v) is not None:
                        a_t += h.rect[v][0]; a_l += h.rect[v][1]; p = h.parent[v]
                        box = isect(box, [-a_t, -a_l, h.rect[p][2], h.rect[p][3]]) if box else None
                        v = p
                    rr = isect(box, rr) if box else None
                if rr is not None:
                    emit("scrollrect %d %d %d %d %d %d %d %s" % (w, rr[0], rr[1], rr[2], rr[3], d, r,
                                                                  rng.choice(["pen=N", "pen=N", "pen=x:%d:x" % rng.randint(0, 7)])))
                else:
                    emit("expose %d" % w)
            else:
                emit("scrollch %d %d %d" % (w, d, r))
                for c in range(h.n):
                    if h.parent.get(c) == w and c not in h.dead:
                        h.rect[c] = [h.rect[c][0] - d, h.rect[c][1] - r, h.rect[c][2], h.rect[c][3]]
        elif x < 0.86 and h.n < 9:
            new_window(h)
        elif x < 0.91 and w != 0:
            sub = h.descendants(w)
            emit("close %d" % w)
            h.dead.update(sub)
        elif x < 0.96:
            # (on the mock terminal: tickit_mockterm_resize)
            nl = max(1, tl + rng.choice([-3, -2, -1, 0, 1, 2, 3])); nc = max(1, tc + rng.choice([-7, -3, -1, 0, 1, 2, 5]))
            if mode == "m": stats["mock_resizes"] = stats.get("mock_resizes", 0) + 1; stats["mock_widened"] = stats.get("mock_widened", 0) + (nc > tc)
            if XM: nl = min(nl, 5)
            if C02 and "root_shrink" in UNFIXED and (nl < tl or nc < tc):
                emit("flush"); stats["flushes"] += 1; h.pending.clear()    # (inert: repaired) no damage pending across a shrink
            emit("resize %d %d" % (nl, nc))
            tl, tc = nl, nc
            h.rect[0] = [0, 0, tl, tc]
        elif x < 0.98 and mode not in ("m", "x"):
            emit("scrollmode %s" % rng.choice(["a", "p", "r"]))
        elif C02 and w is not None:
            emit("beh %d %s" % (w, adversarial_prog(h, w)))
        else:
            emit("expose 0")
    emit("flush"); stats["flushes"] += 1


info = {}
if a.tier == "exhaustive":
    alphabet = ["hide 1", "show 1", "hide 2", "raise 2", "lower 1", "raisefront 3", "lowerback 1", "geom 1 0 1 3 4", "geom 2 2 0 2 5",
                "expose 3", "scroll 1 1 0", "scroll 2 0 -1", "scrollrect 0 0 0 4 6 -1 0 pen=N", "scrollch 1 1 0", "close 2", "resize 3 5", "resize 5 9", "flush"]
    nh = 0
    for k in range(1, 5):
        for seq in itertools.product(range(len(alphabet)), repeat=k):
            ops = [alphabet[i] for i in seq]
            # keep away from C08: no operation on a closed window, no close with a queued request on it
            bad = False; closed = False; pend2 = False
            for o in ops:
                if o == "flush": pend2 = False
                elif o == "raise 2": pend2 = True
                tk = o.split()
                if closed and tk[0] not in ("resize", "flush") and tk[1] == "2": bad = True
                if o == "close 2":
                    if closed: bad = True
                    closed = True
            # (inert: both repaired) window 2 sticks out of a 3x5 terminal; damage pending across a shrink
            small = False; dirty = False
            for o in ops:
                if o == "flush": dirty = False
                elif o == "resize 3 5":
                    if C02 and "root_shrink" in UNFIXED and dirty: bad = True
                    small = True
                elif o == "resize 5 9": small = False; dirty = True
                else:
                    dirty = True
                    if o.startswith("scroll 2") and small and "scroll_unclipped" in UNFIXED: bad = True
            if bad: continue
            for mode in (["a"] if k == 4 else ["a", "p", "r"] + (["m"] if k <= 2 else [])):
                emit("new %s 4 8 %s %s" % (a.prop, mode, "pen=1:0:x"))
                emit("win 1 0 1 1 2 4 - pen=2:1:x")
                emit("win 2 0 0 3 3 4 - pen=3:2:1")
                emit("win 3 1 0 2 2 4 - pen=4:x:x")
                if C02:
                    emit("beh 1 E:-5:-5:20:20 T:0:-1:" + hexs("\uff21\uff22B\uff23\uff24\uff25"))
                    emit("beh 3 K c:0:-1:120")
                emit("flush")
                for o in ops: emit(o)
                emit("flush")
                nh += 1
    info = {"exhaustive_bound": "every history of <= 4 operations from an 18-letter alphabet (hide/show/restack/move/expose/scroll/scrollrect/scroll_with_children+children moved/close/terminal-resize/flush) on a fixed tree of 3 overlapping windows, all three scroll oracles for length <= 3, the mock terminal (terminal-resize = tickit_mockterm_resize) for length <= 2", "histories": nh}
else:
    H = 5000 if a.tier == "quick" else 40000
    for i in range(H):
        history(i, a.tier != "quick")
    stats["histories"] = H
    info = stats
open(a.out, "w").write("\n".join(lines) + "\n")
info.update({"ops": len(lines), "mix": mix})
print(json.dumps(info))
