#!/usr/bin/env python3
"""Operation generator for engine `rect` (C06).  All randomness from --seed."""
import argparse, random, json, itertools
ap = argparse.ArgumentParser()
ap.add_argument("--seed", type=int, default=1); ap.add_argument("--tier", default="quick")
ap.add_argument("--out", required=True); ap.add_argument("--prop", default="C06")
a = ap.parse_args()
rng = random.Random(a.seed)
OPS = ["isect", "add", "sub", "contains", "intersects"]
lines, n_exh, n_rand = [], 0, 0
def emit(op, A, B):
    if len(lines) % 200 == 0: lines.append("new")
    lines.append("%s %d %d %d %d %d %d %d %d" % ((op,) + A + B))
# every weak ordering of the four horizontal and the four vertical edges: coordinates 0..3 suffice
ivs = [(t, b) for t in range(4) for b in range(t + 1, 5) if b <= 4]
ivs = [(t, b) for (t, b) in ivs if b - t >= 1 and b <= 3 + 1]
pairs = list(itertools.product(ivs, ivs))
translations = [(0, 0), (-7, -3), (1000, -1000)] if a.tier != "quick" else [(0, 0), (-7, -3)]
for (dv, dh) in translations:
    for (va, vb) in pairs:
        for (ha, hb) in pairs:
            A = (va[0] + dv, ha[0] + dh, va[1] - va[0], ha[1] - ha[0])
            B = (vb[0] + dv, hb[0] + dh, vb[1] - vb[0], hb[1] - hb[0])
            for op in OPS:
                emit(op, A, B); n_exh += 1
N = 4000 if a.tier == "quick" else 40000
for _ in range(N):
    span = rng.choice([3, 6, 12, 1000])
    def rr():
        return (rng.randint(-span, span), rng.randint(-span, span), rng.randint(1, span), rng.randint(1, span))
    A = rr()
    if rng.random() < 0.5:
        # B shares edges with A
        t = rng.choice([A[0], A[0] + A[2], rng.randint(-span, span)]); l = rng.choice([A[1], A[1] + A[3], rng.randint(-span, span)])
        B = (t, l, rng.choice([A[2], rng.randint(1, span)]), rng.choice([A[3], rng.randint(1, span)]))
    else:
        B = rr()
    emit(rng.choice(OPS), A, B); n_rand += 1
open(a.out, "w").write("\n".join(lines) + "\n")
print(json.dumps({"ops": len(lines), "edge_ordering_pairs_exhaustive": len(pairs) ** 2, "translations": len(translations),
                  "exhaustive_ops": n_exh, "random_ops": n_rand, "exhaustive_bound": "all weak orderings of 4+4 edges (coordinates 0..4) x 5 ops"}))
